package checks

import (
	"fmt"
	"go/ast"
	"go/token"
	"go/types"
	"strings"

	"gnoverif/engine"
)

// C37 — proposer selection / validator-set updates (tm2/pkg/bft/types).
func init() {
	register("C37", c37)
	meta("C37", Meta{
		Text:      "Decides, over all paths of the anchored validator-set functions, structural necessary conditions: the verification helpers (processChanges, verifyRemovals, verifyUpdates) never write a validator or the set; in updateWithChangeSet every mutation of the set comes after the checked results of the three verifiers and the empty-result test, and no error return is reachable after the first mutation (rejected updates leave the set unchanged); processChanges sorts before its duplicate scan and admits a change only after the duplicate / negative / excessive-power tests; verifyUpdates re-tests the running total against MaxTotalVotingPower after every accumulation; every write of ProposerPriority goes through the clipping helpers or a frozen exemption; the increment step adds each validator's own power, selects by CompareProposerPriority (higher priority wins) and subtracts the total from the selected one; rescaling and centering precede the increments and close every accepted update after the total is recomputed; state.updateState updates a copy and checks the error. Level 'other': code-shape clauses, not the numeric fairness theorem.",
		Note:      "Not covered: the fairness count per window, the 3x window bound as arithmetic, sortedness of the merge loops in applyUpdates/applyRemovals (index reasoning). Trusts go/types+go/cfg; && / || are single conditions.",
		Technique: "effect summary over the package call graph (field writes), CFG dominance / gate analysis, who-may-write table with form check on the written value",
		Ref:       "DESIGN.md §2 C37",
	})
	const F = "tm2/pkg/bft/types/validator_set.go"
	mutants("C37",
		Mutant{"write-before-verify", F, "\t// Verify that applying the 'updates' against 'vals' will not result in error.\n", "\tvals.applyRemovals(deletes)\n", "fail-before-write"},
		Mutant{"removals-unchecked", F, "if err := verifyRemovals(deletes, vals); err != nil {\n\t\treturn err\n\t}", "if err := verifyRemovals(deletes, vals); err != nil && allowDeletes {\n\t\treturn err\n\t}", "fail-before-write"},
		Mutant{"empty-check-weakened", F, "if numNewValidators == 0 && len(vals.Validators) == len(deletes) {", "if numNewValidators == 0 && len(vals.Validators) < len(deletes) {", "fail-before-write"},
		Mutant{"verifier-mutates", F, "\t\t_, val := vals.GetByAddress(address)\n\t\tif val == nil {\n\t\t\treturn fmt.Errorf(\"failed to find", "\t\t_, val := vals.GetByAddress(address)\n\t\tvals.Proposer = val\n\t\tif val == nil {\n\t\t\treturn fmt.Errorf(\"failed to find", "pure-verifier"},
		Mutant{"dup-check-dropped", F, "if update.Address == prevAddr {", "if update.Address == prevAddr && update.VotingPower == 0 {", "changes-validated"},
		Mutant{"negative-allowed", F, "if update.VotingPower < 0 {", "if update.VotingPower < -1 {", "changes-validated"},
		Mutant{"unsorted-scan", F, "\tsort.Sort(ValidatorsByAddress(changes))\n\n\tremovals", "\tremovals", "changes-validated"},
		Mutant{"total-check-once", F, "\t\toverflow := updatedTotalVotingPower > MaxTotalVotingPower\n\t\tif overflow {", "\t\toverflow := updatedTotalVotingPower > MaxTotalVotingPower\n\t\tif overflow && numNewValidators > 0 {", "power-bound"},
		Mutant{"raw-add", F, "newPrio := safeAddClip(val.ProposerPriority, val.VotingPower)", "newPrio := val.ProposerPriority + val.VotingPower", "priority-arith"},
		Mutant{"least-priority-wins", "tm2/pkg/bft/types/validator.go", "case v.ProposerPriority > other.ProposerPriority:\n\t\treturn v\n\tcase v.ProposerPriority < other.ProposerPriority:\n\t\treturn other", "case v.ProposerPriority > other.ProposerPriority:\n\t\treturn other\n\tcase v.ProposerPriority < other.ProposerPriority:\n\t\treturn v", "priority-order"},
		Mutant{"no-centering-after-update", F, "\tvals.RescalePriorities(PriorityWindowSizeFactor * vals.TotalVotingPower())\n\tvals.shiftByAvgProposerPriority()\n\n\treturn nil", "\tvals.RescalePriorities(PriorityWindowSizeFactor * vals.TotalVotingPower())\n\n\treturn nil", "rescale-center"},
		Mutant{"stale-total", F, "\tvals.updateTotalVotingPower()\n\n\t// Scale and center.", "\t// Scale and center.", "rescale-center"},
		Mutant{"decrement-by-own-power", F, "mostest.ProposerPriority = safeSubClip(mostest.ProposerPriority, vals.TotalVotingPower())", "mostest.ProposerPriority = safeSubClip(mostest.ProposerPriority, mostest.VotingPower)", "increment-step"},
		Mutant{"update-in-place", "tm2/pkg/bft/state/execution.go", "nValSet := state.NextValidators.Copy()", "nValSet := state.NextValidators", "update-on-copy"},
	)
}

func c37(c *engine.Ctx) {
	c.Explain = "Decides structural necessary conditions of the validator-set property: (1) processChanges/verifyRemovals/verifyUpdates (and everything they call) write no field of Validator or ValidatorSet other than the power-sum cache; (2) in updateWithChangeSet every set-mutating call is dominated by the checked error results of the three verifiers and by the empty-result test, and no error return is reachable after it; (3) processChanges sorts the copied changes before scanning and appends a change only after the duplicate, negative-power and excessive-power tests; updates get only non-zero powers; (4) verifyUpdates re-tests the accumulated total against MaxTotalVotingPower after every accumulation before continuing or returning success; (5) every write of Validator.ProposerPriority is a clipping-helper result, a copy of another priority, zero, or one of two frozen exemptions; (6) the increment step adds each validator's own VotingPower, selects through getValWithMostPriority/CompareProposerPriority (strictly higher priority wins) and subtracts TotalVotingPower from the selected validator, which becomes Proposer; (7) RescalePriorities(PriorityWindowSizeFactor*total) and centering precede the increments, and after an accepted update follow the recomputation of the total which follows both apply steps; (8) state.updateState updates a Copy and tests the error before use. Not covered: the per-window proposer counts, the 3x bound as arithmetic, sortedness of the merge loops."
	pats := []string{"tm2/pkg/bft/types", "tm2/pkg/bft/state"}
	if c.Tier == "thorough" {
		pats = []string{"tm2/..."}
	}
	p := c.Load(pats...)
	if p == nil {
		return
	}
	const T = "tm2/pkg/bft/types."
	const VS = T + "(*ValidatorSet)."

	fValidators := p.Field(T + "ValidatorSet.Validators")
	fProposer := p.Field(T + "ValidatorSet.Proposer")
	fAddr := p.Field(T + "Validator.Address")
	fPub := p.Field(T + "Validator.PubKey")
	fPower := p.Field(T + "Validator.VotingPower")
	fPrio := p.Field(T + "Validator.ProposerPriority")
	for _, x := range []struct {
		n string
		v *types.Var
	}{{"ValidatorSet.Validators", fValidators}, {"ValidatorSet.Proposer", fProposer}, {"Validator.Address", fAddr}, {"Validator.PubKey", fPub}, {"Validator.VotingPower", fPower}, {"Validator.ProposerPriority", fPrio}} {
		if x.v == nil {
			c.Undecided("anchor", T+x.n, "field not found")
			return
		}
	}
	setFields := []*types.Var{fValidators, fProposer, fAddr, fPub, fPower, fPrio}
	writes := niFieldWrites(p, setFields...)
	writersOf := map[*engine.Fn][]engine.Write{}
	for _, w := range writes {
		writersOf[w.Fn.Root()] = append(writersOf[w.Fn.Root()], w)
	}
	mutates := func(f *engine.Fn) (bool, string) {
		for _, x := range niCalleeClosure(p, f) {
			if ws := writersOf[x.Root()]; len(ws) > 0 {
				return true, x.Root().Name + " writes a Validator/ValidatorSet field at " + p.Pos(ws[0].Node.Pos())
			}
		}
		return false, ""
	}

	// (1) verifiers are pure w.r.t. the set.
	n := 0
	for _, name := range []string{T + "processChanges", T + "verifyRemovals", T + "verifyUpdates"} {
		if f := c.MustFunc(name); f != nil {
			n++
			m, why := mutates(f)
			if !m {
				why = "no write of a Validator/ValidatorSet field in its call closure (power-sum cache excepted)"
			}
			c.Check("pure-verifier", name, f.Pos(), !m, why)
		}
	}
	c.Floor("pure-verifier", n, 3)

	// (2) updateWithChangeSet: fail before write.
	if f := c.MustFunc(VS + "updateWithChangeSet"); f != nil {
		c37FailBeforeWrite(c, p, f, mutates, writersOf[f], fValidators)
		c37RescaleAfterUpdate(c, p, f)
	}

	// (3) processChanges.
	if f := c.MustFunc(T + "processChanges"); f != nil {
		c37ProcessChanges(c, p, f, fAddr, fPower)
	}

	// (4) verifyUpdates.
	if f := c.MustFunc(T + "verifyUpdates"); f != nil {
		c37PowerBound(c, p, f)
	}

	// (5) priority arithmetic.
	c37PriorityArith(c, p, fPrio)

	// (6) increment step and comparator.
	if f := c.MustFunc(VS + "incrementProposerPriority"); f != nil {
		c37IncrementStep(c, p, f, fPrio, fPower, fValidators)
	}
	if f := c.MustFunc(VS + "getValWithMostPriority"); f != nil {
		// the selection folds CompareProposerPriority over vals.Validators
		ok, why := false, "no `res = res.CompareProposerPriority(val)` fold over the receiver's Validators"
		for _, s := range f.CallsTo(T + "(*Validator).CompareProposerPriority") {
			as, isAs := s.Top.(*ast.AssignStmt)
			if !isAs || len(as.Lhs) != 1 {
				continue
			}
			res := engine.ObjOf(f.Info(), as.Lhs[0])
			loops := niEnclosingLoops(f, s.Node)
			if res == nil || len(loops) == 0 || !returnsObj(f, res) {
				continue
			}
			rs, isR := loops[len(loops)-1].(*ast.RangeStmt)
			if !isR || !niSelField(f.Info(), rs.X, fValidators) {
				continue
			}
			v := engine.ObjOf(f.Info(), rs.Value)
			if engine.ObjOf(f.Info(), niRecvExpr(s.Call)) == res && len(s.Call.Args) == 1 && engine.ObjOf(f.Info(), s.Call.Args[0]) == v && v != nil {
				ok, why = true, "fold of CompareProposerPriority over all validators, result returned"
			}
		}
		c.Check("increment-step", f.Name+" selects by CompareProposerPriority", f.Pos(), ok, why)
	}
	if f := c.MustFunc(T + "(*Validator).CompareProposerPriority"); f != nil {
		c37Comparator(c, f, fPrio)
	}
	if f := c.MustFunc(VS + "IncrementProposerPriority"); f != nil {
		c37IncrementOuter(c, p, f, fProposer)
	}

	// (8) updateState.
	if f := c.MustFunc("tm2/pkg/bft/state.updateState"); f != nil {
		g := f.Graph()
		ups := f.CallsTo(VS+"UpdateWithABCIValidatorUpdates", VS+"UpdateWithChangeSet")
		c.Floor("update-on-copy", len(ups), 1)
		for _, u := range ups {
			recv := engine.ObjOf(f.Info(), niRecvExpr(u.Call))
			def := niSingleDef(f, recv)
			ok := false
			if call, isCall := ast.Unparen(def).(*ast.CallExpr); def != nil && isCall {
				if fo, _ := engine.ObjOf(f.Info(), call.Fun).(*types.Func); fo != nil && engine.FuncName(fo) == VS+"Copy" {
					ok = true
				}
			}
			c.Check("update-on-copy", f.Name+" receiver of "+u.CalleeName()+" is a Copy", u.Pos(), ok, "the set being updated must be a local initialised once from (*ValidatorSet).Copy()")
			incs := f.CallsTo(VS + "IncrementProposerPriority")
			okc := len(incs) > 0
			why := "no IncrementProposerPriority call"
			for _, inc := range incs {
				r := g.CheckedGuard(u, inc)
				if !r.OK {
					// the update is conditional (only when there are updates): the
					// guard then need not dominate; require instead that the failing
					// branch cannot reach inc.
					r = c37ErrBranchLeaves(f, u, inc)
				}
				if !r.OK {
					okc, why = false, "error of the update is not tested before the set is used: "+r.Why
				} else {
					why = "error result tested; failing branch returns"
				}
			}
			c.Check("update-on-copy", f.Name+" error of "+u.CalleeName()+" checked", u.Pos(), okc, why)
		}
	}
}

// c37ErrBranchLeaves: the call's error result is bound to a variable, a
// condition `v != nil` dominated by the call exists whose true branch cannot
// reach target, and every path from the call to target passes that condition.
func c37ErrBranchLeaves(f *engine.Fn, call, target *engine.Site) engine.GuardResult {
	g := f.Graph()
	info := f.Info()
	objs := niAssignedFromCall(f, call)
	if len(objs) == 0 || objs[len(objs)-1] == nil {
		return engine.GuardResult{Why: "error result is not bound to a variable"}
	}
	errObj := objs[len(objs)-1]
	for _, b := range g.CFG.Blocks {
		if !b.Live || len(b.Succs) != 2 || len(b.Nodes) == 0 {
			continue
		}
		cond, ok := b.Nodes[len(b.Nodes)-1].(ast.Expr)
		if !ok {
			continue
		}
		be, ok := ast.Unparen(cond).(*ast.BinaryExpr)
		if !ok || (be.Op != token.NEQ && be.Op != token.EQL) || engine.ObjOf(info, be.X) != errObj || !isNil(be.Y) {
			continue
		}
		if !(b == call.Block || g.BlockDominates(call.Block, b)) {
			continue
		}
		fail := b.Succs[0]
		if be.Op == token.EQL {
			fail = b.Succs[1]
		}
		if fail == target.Block || g.Reach(fail, target.Block, map[*niCfgBlock]bool{b: true}) {
			continue
		}
		// every path from the call to target passes b
		reach := false
		if call.Block != b {
			for _, s := range call.Block.Succs {
				if g.Reach(s, target.Block, map[*niCfgBlock]bool{b: true}) {
					reach = true
				}
			}
		}
		if reach {
			continue
		}
		return engine.GuardResult{OK: true, Cond: cond, OnTrue: be.Op == token.EQL}
	}
	return engine.GuardResult{Why: "no `err != nil` test between the call and the use whose failing branch leaves"}
}

func c37FailBeforeWrite(c *engine.Ctx, p *engine.Prog, f *engine.Fn, mutates func(*engine.Fn) (bool, string), direct []engine.Write, fValidators *types.Var) {
	const T = "tm2/pkg/bft/types."
	const rule = "fail-before-write"
	g := f.Graph()
	type msite struct {
		s    *engine.Site
		name string
	}
	var ms []msite
	for _, s := range f.Calls() {
		fo, ok := s.Callee.(*types.Func)
		if !ok {
			continue
		}
		cf := p.FnOf(fo)
		if cf == nil {
			continue
		}
		if m, _ := mutates(cf); m {
			ms = append(ms, msite{s, strings.TrimPrefix(engine.FuncName(fo), T)})
		}
	}
	for _, w := range direct {
		if w.Fn != f {
			continue
		}
		if s := f.SiteOf(w.Node); s != nil {
			ms = append(ms, msite{s, "direct write"})
		}
	}
	c.Floor(rule, len(ms), 3)
	// guards: the verifiers may be called from f or from a private helper of f
	type guard struct {
		name string
		d    engine.DeepSite
	}
	var guards []guard
	for _, gname := range []string{"processChanges", "verifyRemovals", "verifyUpdates"} {
		ds := f.DeepCallsTo(2, T+gname)
		if len(ds) != 1 {
			c.Undecided(rule, f.Name+" guard "+gname, "expected exactly one (deep) call")
			continue
		}
		guards = append(guards, guard{gname, ds[0]})
	}
	// objects bound to the verifiers' results in the function that calls them
	boundIn := func(fn *engine.Fn, name string, idx int) types.Object {
		s, objs := niBoundCall(fn, T+name)
		if s == nil || idx >= len(objs) {
			return nil
		}
		return objs[idx]
	}
	rets := niReturns(f)
	for _, m := range ms {
		// no error return after the mutation
		bad := ""
		for _, r := range rets {
			if niLastResultNonNil(r.Node.(*ast.ReturnStmt)) && g.ReachableAfter(m.s, r) {
				bad = "error return at " + p.Pos(r.Pos()) + " is reachable after the mutation"
			}
		}
		c.Check(rule, f.Name+" no error return after "+m.name, m.s.Pos(), bad == "", bad)
		for _, gd := range guards {
			ok, why := niDeepChecked(f, gd.d, m.s)
			if ok {
				why = "dominated by checked " + gd.name
			}
			c.Check(rule, f.Name+" "+m.name+" after checked "+gd.name, m.s.Pos(), ok, why)
		}
		// empty-result test: a condition `numNew == 0 && len(vals.Validators) == len(deletes)` is
		// known false at the mutation (tested in f, or in a helper whose nil result gates the mutation)
		ok, why := false, "no `numNew == 0 && len(vals.Validators) == len(deletes)` test with error return gates the mutation"
		for _, cf := range niFactsDeep(f, m.s, 2) {
			if cf.Holds {
				continue
			}
			cj := engine.Conjuncts(cf.Expr, token.LAND)
			if len(cj) != 2 {
				continue
			}
			finfo := cf.Info()
			numNew, deletes := boundIn(cf.Fn, "verifyUpdates", 1), boundIn(cf.Fn, "processChanges", 1)
			var okNew, okLen bool
			for _, a := range cj {
				be, isB := ast.Unparen(a).(*ast.BinaryExpr)
				if !isB {
					continue
				}
				x0, y0, op0 := be.X, be.Y, be.Op
				if niIsZero(finfo, x0) {
					x0, y0, op0 = y0, x0, engine.Flip(op0)
				}
				if op0 == token.EQL && numNew != nil && engine.ObjOf(finfo, x0) == numNew && niIsZero(finfo, y0) {
					okNew = true
				}
				x, y, op := be.X, be.Y, be.Op
				if niIsLenOfField(finfo, y, fValidators) {
					x, y, op = y, x, engine.Flip(op)
				}
				if niIsLenOfField(finfo, x, fValidators) && niIsLenOfObj(finfo, y, deletes) && (op == token.EQL || op == token.LEQ) {
					okLen = true
				}
			}
			if okNew && okLen {
				ok, why = true, "mutation on the false side of `"+engine.ExprString(cf.Expr)+"`"
			}
		}
		c.Check(rule, f.Name+" "+m.name+" after empty-result test", m.s.Pos(), ok, why)
	}
}

func niIsZero(info *types.Info, e ast.Expr) bool {
	tv, ok := info.Types[e]
	return ok && tv.Value != nil && tv.Value.String() == "0"
}

func c37RescaleAfterUpdate(c *engine.Ctx, p *engine.Prog, f *engine.Fn) {
	const VS = "tm2/pkg/bft/types.(*ValidatorSet)."
	const rule = "rescale-center"
	g := f.Graph()
	// the steps may sit in f or in private helpers called from f
	// a recomputation reached through the lazy getter TotalVotingPower() is
	// conditional (only when the cache is 0) and does not count as the forced one
	forced := func(d engine.DeepSite) bool {
		for _, h := range d.Chain {
			if h.Name == VS+"TotalVotingPower" {
				return false
			}
		}
		return true
	}
	deep := func(name string) []engine.DeepSite {
		var ds []engine.DeepSite
		for _, d := range f.DeepCallsTo(2, VS+name) {
			if forced(d) {
				ds = append(ds, d)
			}
		}
		if len(ds) == 0 {
			c.Undecided(rule, f.Name+" "+name, "no (deep) call found")
		}
		return ds
	}
	au, ar, ut, rs, sh := deep("applyUpdates"), deep("applyRemovals"), deep("updateTotalVotingPower"), deep("RescalePriorities"), deep("shiftByAvgProposerPriority")
	if len(au) == 0 || len(ar) == 0 || len(ut) == 0 || len(rs) == 0 || len(sh) == 0 {
		return
	}
	for _, x := range [][2]string{{"applyUpdates", "updateTotalVotingPower"}, {"applyRemovals", "updateTotalVotingPower"}, {"updateTotalVotingPower", "RescalePriorities"}, {"RescalePriorities", "shiftByAvgProposerPriority"}} {
		ok, _ := niDeepBeforeF(f, 2, []string{VS + x[0]}, []string{VS + x[1]}, forced)
		c.Check(rule, f.Name+" "+x[0]+" before "+x[1], f.Pos(), ok, "order of the closing steps of an accepted update")
	}
	// every success return reachable after the apply steps is dominated by the centering
	nret := 0
	for _, r := range niReturns(f) {
		after := false
		for _, a := range append(append([]engine.DeepSite{}, au...), ar...) {
			if g.ReachableAfter(a.Outer, r) {
				after = true
			}
		}
		if !after {
			continue
		}
		nret++
		dom := false
		for _, s := range sh {
			if g.Dominates(s.Outer, r) {
				dom = true
			}
		}
		c.Check(rule, f.Name+" return after apply is centered", r.Pos(), dom, "a return reachable after the apply steps must be dominated by shiftByAvgProposerPriority")
	}
	c.Floor(rule, nret, 1)
	for _, d := range rs {
		c37RescaleArg(c, p, f, d)
	}
}

// c37RescaleArg: the window passed to RescalePriorities is PriorityWindowSizeFactor * TotalVotingPower().
func c37RescaleArg(c *engine.Ctx, p *engine.Prog, root *engine.Fn, d engine.DeepSite) {
	const T = "tm2/pkg/bft/types."
	rs := d.Inner
	f := rs.Fn // the function that actually contains the call (root or a helper)
	info := f.Info()
	factor := p.Object(T + "PriorityWindowSizeFactor")
	if factor == nil {
		c.Undecided("rescale-center", T+"PriorityWindowSizeFactor", "constant not found")
		return
	}
	var arg ast.Expr
	if len(rs.Call.Args) == 1 {
		arg = rs.Call.Args[0]
		if id, ok := ast.Unparen(arg).(*ast.Ident); ok {
			if d := niSingleDef(f, info.ObjectOf(id)); d != nil {
				arg = d
			}
		}
	}
	ok := false
	if be, isB := ast.Unparen(arg).(*ast.BinaryExpr); arg != nil && isB && be.Op == token.MUL {
		isTot := func(e ast.Expr) bool {
			call, ok := ast.Unparen(e).(*ast.CallExpr)
			if !ok {
				return false
			}
			fo, _ := engine.ObjOf(info, call.Fun).(*types.Func)
			return fo != nil && engine.FuncName(fo) == T+"(*ValidatorSet).TotalVotingPower"
		}
		ok = (niIsObj(info, be.X, factor) && isTot(be.Y)) || (niIsObj(info, be.Y, factor) && isTot(be.X))
	}
	c.Check("rescale-center", root.Name+" window = PriorityWindowSizeFactor*TotalVotingPower()", rs.Pos(), ok, "argument of RescalePriorities")
}

func c37IncrementOuter(c *engine.Ctx, p *engine.Prog, f *engine.Fn, fProposer *types.Var) {
	const VS = "tm2/pkg/bft/types.(*ValidatorSet)."
	const rule = "rescale-center"
	g := f.Graph()
	info := f.Info()
	incs := f.CallsTo(VS + "incrementProposerPriority")
	rss := f.DeepCallsTo(2, VS+"RescalePriorities")
	shs := f.DeepCallsTo(2, VS+"shiftByAvgProposerPriority")
	c.Floor(rule+" (IncrementProposerPriority)", len(incs), 1)
	for _, inc := range incs {
		ok1, _ := niDeepBefore(f, 2, []string{VS + "RescalePriorities"}, []string{VS + "shiftByAvgProposerPriority"})
		ok := ok1 && len(rss) > 0 && len(shs) > 0
		for _, s := range append(append([]engine.DeepSite{}, rss...), shs...) {
			if !g.Dominates(s.Outer, inc) || g.ReachableAfter(inc, s.Outer) {
				ok = false
			}
		}
		c.Check(rule, f.Name+" rescale and center before the increments", inc.Pos(), ok, "RescalePriorities then shiftByAvgProposerPriority must dominate the increment loop and not run inside it")
		// Proposer = result of the last increment
		objs := niAssignedFromCall(f, inc)
		okp := false
		if len(objs) == 1 && objs[0] != nil {
			for _, w := range p.FieldWrites(fProposer) {
				if w.Fn != f || !w.Direct {
					continue
				}
				if as, isAs := w.Node.(*ast.AssignStmt); isAs && len(as.Rhs) == 1 && engine.ObjOf(info, as.Rhs[0]) == objs[0] {
					if s := f.SiteOf(as); s != nil && g.ReachableAfter(inc, s) {
						okp = true
					}
				}
			}
		}
		c.Check("increment-step", f.Name+" Proposer = last selected validator", inc.Pos(), okp, "vals.Proposer must be assigned the value returned by incrementProposerPriority")
	}
	for _, d := range rss {
		c37RescaleArg(c, p, f, d)
	}
}

func c37ProcessChanges(c *engine.Ctx, p *engine.Prog, f *engine.Fn, fAddr, fPower *types.Var) {
	const T = "tm2/pkg/bft/types."
	const rule = "changes-validated"
	g := f.Graph()
	info := f.Info()
	maxC := p.Object(T + "MaxTotalVotingPower")
	if maxC == nil {
		c.Undecided(rule, T+"MaxTotalVotingPower", "constant not found")
		return
	}
	// result objects
	var results []types.Object
	if f.Type.Results != nil {
		for _, fl := range f.Type.Results.List {
			for _, nm := range fl.Names {
				results = append(results, info.ObjectOf(nm))
			}
		}
	}
	n := 0
	for _, s := range f.CallsTo("builtin.append") {
		as, ok := s.Top.(*ast.AssignStmt)
		if !ok || len(as.Lhs) != 1 {
			continue
		}
		dst := engine.ObjOf(info, as.Lhs[0])
		isRes := false
		for _, r := range results {
			if r == dst && r != nil {
				isRes = true
			}
		}
		if !isRes && !returnsObj(f, dst) {
			continue
		}
		loops := niEnclosingLoops(f, s.Node)
		if len(loops) == 0 {
			continue
		}
		rs, ok := loops[len(loops)-1].(*ast.RangeStmt)
		if !ok {
			continue
		}
		n++
		key := f.Name + " append(" + dst.Name() + ")"
		elem := engine.ObjOf(info, rs.Value)
		ranged := engine.ObjOf(info, rs.X)
		// the appended value is the loop element
		c.Check(rule, key+" appends the scanned element", s.Pos(), len(s.Call.Args) == 2 && elem != nil && engine.ObjOf(info, s.Call.Args[1]) == elem, "")
		// facts
		var dup, neg, exc, split bool
		var prev types.Object
		for _, ft := range niFacts(g, s) {
			cmp, ok := niAsCmp(ft)
			if !ok {
				continue
			}
			for _, cm := range []niCmp{cmp, cmp.niFlip()} {
				// elem.Address != prev
				if cm.Op == token.NEQ && niSelField(info, cm.X, fAddr) && niMentionsObj(info, cm.X, elem) {
					if o, isVar := engine.ObjOf(info, cm.Y).(*types.Var); isVar && !o.IsField() {
						dup, prev = true, o
					}
				}
				if niSelField(info, cm.X, fPower) && niMentionsObj(info, cm.X, elem) {
					if cm.Op == token.GEQ && niIsZero(info, cm.Y) {
						neg = true
					}
					if cm.Op == token.LEQ && niIsObj(info, cm.Y, maxC) {
						exc = true
					}
					if niIsZero(info, cm.Y) && (cm.Op == token.EQL || cm.Op == token.NEQ || cm.Op == token.GTR) {
						split = true
					}
				}
			}
		}
		c.Check(rule, key+" after duplicate-address test", s.Pos(), dup, "append must be reached only when elem.Address != previous address")
		c.Check(rule, key+" after negative-power test", s.Pos(), neg, "append must be reached only when elem.VotingPower >= 0")
		c.Check(rule, key+" after excessive-power test", s.Pos(), exc, "append must be reached only when elem.VotingPower <= MaxTotalVotingPower")
		c.Check(rule, key+" split on power zero", s.Pos(), split, "updates/removals must be separated by a VotingPower-vs-0 test")
		// prev is refreshed from elem.Address on the way round the loop
		okPrev := false
		if prev != nil {
			engine.InspectBody(f, func(x ast.Node) {
				as2, ok := x.(*ast.AssignStmt)
				if !ok || len(as2.Lhs) != 1 || len(as2.Rhs) != 1 || engine.ObjOf(info, as2.Lhs[0]) != prev {
					return
				}
				if !niSelField(info, as2.Rhs[0], fAddr) || !niMentionsObj(info, as2.Rhs[0], elem) {
					return
				}
				if st := f.SiteOf(as2); st != nil && rs.Body.Pos() <= as2.Pos() && as2.End() <= rs.Body.End() {
					// every way from the append back to the loop head passes the refresh
					head := niLoopHead(g, rs)
					if head != nil && !niReachAvoiding(g, s, head, st) {
						okPrev = true
					}
				}
			})
		}
		c.Check(rule, key+" previous address refreshed", s.Pos(), okPrev, "the remembered address must be set to elem.Address before the next iteration")
		// sorted before the scan
		okSort := false
		for _, srt := range f.CallsTo("sort.Sort", "sort.Stable", "sort.Slice", "sort.SliceStable", "slices.SortFunc", "slices.SortStableFunc") {
			if len(srt.Call.Args) > 0 && niMentionsObj(info, srt.Call.Args[0], ranged) && g.Dominates(srt, s) && len(niEnclosingLoops(f, srt.Node)) == 0 {
				okSort = true
			}
		}
		c.Check(rule, key+" scan over sorted changes", s.Pos(), okSort, "the scanned slice must be sorted (by address) before the adjacent-duplicate scan")
		// scanned slice is a copy of the parameter
		okCopy := false
		if d := niSingleDef(f, ranged); d != nil {
			if call, ok := ast.Unparen(d).(*ast.CallExpr); ok {
				if fo, _ := engine.ObjOf(info, call.Fun).(*types.Func); fo != nil && engine.FuncName(fo) == T+"validatorListCopy" && niCallArgMentions(info, call, 0, paramObj(f, 0)) {
					okCopy = true
				}
			}
		}
		c.Check(rule, key+" scan over a deep copy", s.Pos(), okCopy, "changes must be copied with validatorListCopy before sorting/priorities are written")
	}
	c.Floor(rule, n, 2)
}

func c37PowerBound(c *engine.Ctx, p *engine.Prog, f *engine.Fn) {
	const T = "tm2/pkg/bft/types."
	const rule = "power-bound"
	g := f.Graph()
	info := f.Info()
	maxC := p.Object(T + "MaxTotalVotingPower")
	var acc types.Object
	if f.Type.Results != nil && len(f.Type.Results.List) > 0 && len(f.Type.Results.List[0].Names) > 0 {
		acc = info.ObjectOf(f.Type.Results.List[0].Names[0])
	}
	if acc == nil || maxC == nil {
		c.Undecided(rule, f.Name, "named first result (running total) or MaxTotalVotingPower not found")
		return
	}
	// the test blocks: cond (resolved) is acc > Max, true branch reaches only error returns
	type test struct{ s *engine.Site }
	var tests []*engine.Site
	for _, b := range g.CFG.Blocks {
		if !b.Live || len(b.Succs) != 2 || len(b.Nodes) == 0 {
			continue
		}
		cond, ok := b.Nodes[len(b.Nodes)-1].(ast.Expr)
		if !ok {
			continue
		}
		rc := niResolveCond(f, cond)
		be, ok := ast.Unparen(rc).(*ast.BinaryExpr)
		if !ok {
			continue
		}
		x, y, op := be.X, be.Y, be.Op
		if niIsObj(info, x, maxC) {
			x, y, op = y, x, engine.Flip(op)
		}
		if engine.ObjOf(info, x) != acc || !niIsObj(info, y, maxC) || op != token.GTR {
			continue
		}
		// true branch must reach only error returns and not loop
		okBranch := true
		for _, r := range niReturns(f) {
			if !niLastResultNonNil(r.Node.(*ast.ReturnStmt)) && (b.Succs[0] == r.Block || g.Reach(b.Succs[0], r.Block, map[*niCfgBlock]bool{b: true})) {
				okBranch = false
			}
		}
		if g.Reach(b.Succs[0], b, nil) {
			okBranch = false
		}
		if !okBranch {
			continue
		}
		if s := f.SiteOf(cond); s != nil {
			// if the condition is a resolved local, the defining assignment must be in the same block after any acc write — use the definition site instead
			if rc != cond {
				var defSite *engine.Site
				engine.InspectBody(f, func(n ast.Node) {
					if as, ok := n.(*ast.AssignStmt); ok && len(as.Rhs) == 1 && as.Rhs[0] == rc {
						defSite = f.SiteOf(as)
					}
				})
				if defSite == nil || !g.Dominates(defSite, s) {
					continue
				}
				// nothing writes acc between def and test: require same block
				if defSite.Block != s.Block {
					continue
				}
				tests = append(tests, defSite)
				continue
			}
			tests = append(tests, s)
		}
	}
	// accumulations inside loops
	n := 0
	engine.InspectBody(f, func(x ast.Node) {
		var lhs []ast.Expr
		switch st := x.(type) {
		case *ast.AssignStmt:
			lhs = st.Lhs
		case *ast.IncDecStmt:
			lhs = []ast.Expr{st.X}
		default:
			return
		}
		hit := false
		for _, l := range lhs {
			if engine.ObjOf(info, l) == acc {
				hit = true
			}
		}
		if !hit {
			return
		}
		loops := niEnclosingLoops(f, x)
		if len(loops) == 0 {
			return
		}
		w := f.SiteOf(x)
		if w == nil {
			return
		}
		n++
		ok := len(tests) > 0
		why := "no `total > MaxTotalVotingPower` test with an error-only branch found"
		if ok {
			head := niLoopHead(g, loops[len(loops)-1])
			if head == nil || niReachAvoiding(g, w, head, tests...) {
				ok, why = false, "the next iteration is reachable after the accumulation without re-testing the total"
			}
			for _, r := range niReturns(f) {
				if !niLastResultNonNil(r.Node.(*ast.ReturnStmt)) && niReachAvoiding(g, w, r.Block, tests...) {
					ok, why = false, "a success return is reachable after the accumulation without re-testing the total"
				}
			}
			if ok {
				why = "every path from the accumulation passes the MaxTotalVotingPower test"
			}
		}
		c.Check(rule, fmt.Sprintf("%s accumulation #%d of %s re-tested", f.Name, n, acc.Name()), w.Pos(), ok, why)
	})
	c.Floor(rule, n, 2)
}

func c37PriorityArith(c *engine.Ctx, p *engine.Prog, fPrio *types.Var) {
	const T = "tm2/pkg/bft/types."
	const rule = "priority-arith"
	// frozen exemptions: function -> reason
	exempt := map[string]string{
		T + "(*ValidatorSet).RescalePriorities": "integer division by a positive ratio (cannot overflow)",
		T + "computeNewPriorities":              "-(total + total>>3) with total <= MaxTotalVotingPower = MaxInt64/8 (cannot overflow)",
	}
	n := 0
	for _, w := range p.FieldWrites(fPrio) {
		if w.Kind == "lit" || !w.Direct {
			continue
		}
		root := w.Fn.Root().Name
		info := w.Fn.Info()
		n++
		key := root + " writes ProposerPriority"
		if strings.Contains(p.Pos(w.Node.Pos()), "pb3_gen.go") || strings.HasSuffix(p.Pos(w.Node.Pos()), "pb3_gen.go") {
			c.Check(rule, key, w.Node.Pos(), true, "generated decoder")
			continue
		}
		as, ok := w.Node.(*ast.AssignStmt)
		if !ok {
			c.Check(rule, key, w.Node.Pos(), false, "ProposerPriority modified by "+w.Kind+" (native arithmetic)")
			continue
		}
		if why, ex := exempt[root]; ex {
			// the exemption covers one operator form each
			okForm := false
			switch root {
			case T + "(*ValidatorSet).RescalePriorities":
				okForm = as.Tok == token.QUO_ASSIGN
			case T + "computeNewPriorities":
				okForm = as.Tok == token.ASSIGN && len(as.Rhs) == 1 && (niSelField(info, as.Rhs[0], fPrio) || !niMentionsField(info, as.Rhs[0], fPrio))
			}
			c.Check(rule, key, w.Node.Pos(), okForm, "exempt: "+why)
			continue
		}
		if as.Tok != token.ASSIGN && as.Tok != token.DEFINE {
			c.Check(rule, key, w.Node.Pos(), false, "native compound assignment "+as.Tok.String()+" on ProposerPriority")
			continue
		}
		if len(as.Lhs) != len(as.Rhs) {
			c.Check(rule, key, w.Node.Pos(), false, "multi-value assignment not recognised")
			continue
		}
		for i, l := range as.Lhs {
			if !niSelField(info, l, fPrio) {
				continue
			}
			ok, why := c37SafeValue(w.Fn, as.Rhs[i], fPrio, 0)
			c.Check(rule, key, w.Node.Pos(), ok, why)
		}
	}
	c.Floor(rule, n, 5)
	// who may write (thorough closes over tm2/...)
	allowed := []string{
		T + "(*ValidatorSet).RescalePriorities", T + "(*ValidatorSet).incrementProposerPriority",
		T + "(*ValidatorSet).shiftByAvgProposerPriority", T + "computeNewPriorities",
	}
	var ws []string
	for _, x := range engine.WriterSet(p.FieldWrites(fPrio), func(w engine.Write) bool {
		return w.Kind != "lit" && !strings.Contains(p.Pos(w.Node.Pos()), "pb3_gen.go")
	}) {
		ws = append(ws, x)
	}
	extra := engine.SetDiff(ws, allowed)
	c.Check("who-may-write", T+"Validator.ProposerPriority", token.NoPos, len(extra) == 0, "writers outside the frozen table: "+join(extra))
}

// c37SafeValue: the value is a clipping-helper result, a plain priority read,
// zero, or a local defined once by such a value.
func c37SafeValue(f *engine.Fn, e ast.Expr, fPrio *types.Var, depth int) (bool, string) {
	const T = "tm2/pkg/bft/types."
	info := f.Info()
	e = ast.Unparen(e)
	if niIsZero(info, e) {
		return true, "zero"
	}
	if niSelField(info, e, fPrio) {
		return true, "copy of a priority"
	}
	if call, ok := e.(*ast.CallExpr); ok {
		if fo, _ := engine.ObjOf(info, call.Fun).(*types.Func); fo != nil {
			switch engine.FuncName(fo) {
			case T + "safeAddClip", T + "safeSubClip":
				return true, "result of " + fo.Name()
			}
		}
		return false, "value computed by `" + engine.ExprString(call.Fun) + "`, not by safeAddClip/safeSubClip"
	}
	if id, ok := e.(*ast.Ident); ok && depth < 3 {
		if d := niSingleDef(f, info.ObjectOf(id)); d != nil {
			return c37SafeValue(f, d, fPrio, depth+1)
		}
		return false, "value of `" + id.Name + "` is not a single clipping-helper result"
	}
	return false, "native arithmetic `" + engine.ExprString(e) + "` on a priority"
}

func c37IncrementStep(c *engine.Ctx, p *engine.Prog, f *engine.Fn, fPrio, fPower, fValidators *types.Var) {
	const T = "tm2/pkg/bft/types."
	const rule = "increment-step"
	g := f.Graph()
	info := f.Info()
	recv := niRecv(f)
	// (a) each validator gains its own power
	okAdd, whyAdd := false, "no loop over vals.Validators adding val.VotingPower to val.ProposerPriority via safeAddClip"
	var addSite *engine.Site
	for _, s := range f.CallsTo(T + "safeAddClip") {
		loops := niEnclosingLoops(f, s.Node)
		if len(loops) == 0 || len(s.Call.Args) != 2 {
			continue
		}
		rs, ok := loops[len(loops)-1].(*ast.RangeStmt)
		if !ok || !niSelField(info, rs.X, fValidators) || !niMentionsObj(info, rs.X, recv) {
			continue
		}
		v := engine.ObjOf(info, rs.Value)
		a0, a1 := s.Call.Args[0], s.Call.Args[1]
		if !(niSelField(info, a0, fPrio) && niMentionsObj(info, a0, v) && niSelField(info, a1, fPower) && niMentionsObj(info, a1, v)) {
			whyAdd = "safeAddClip arguments are not (val.ProposerPriority, val.VotingPower) of the loop element"
			continue
		}
		// result stored to v.ProposerPriority in the loop, unconditionally
		for _, w := range p.FieldWrites(fPrio) {
			if w.Fn != f || !w.Direct {
				continue
			}
			as, ok := w.Node.(*ast.AssignStmt)
			if !ok || len(as.Lhs) != 1 || len(as.Rhs) != 1 || !niMentionsObj(info, as.Lhs[0], v) {
				continue
			}
			val := ast.Unparen(as.Rhs[0])
			if id, ok := val.(*ast.Ident); ok {
				if d := niSingleDef(f, info.ObjectOf(id)); d != nil {
					val = ast.Unparen(d)
				}
			}
			if val != ast.Expr(s.Call) {
				continue
			}
			ws := f.SiteOf(as)
			if ws != nil && len(g.Gates(ws)) <= len(g.Gates(f.SiteOf(rs.Body.List[0]))) {
				okAdd, whyAdd, addSite = true, "each val.ProposerPriority = safeAddClip(val.ProposerPriority, val.VotingPower)", ws
			}
		}
	}
	c.Check(rule, f.Name+" every validator gains its own power", f.Pos(), okAdd, whyAdd)
	// (b) the selected validator loses the total and is returned
	okSub, whySub := false, "no `sel.ProposerPriority = safeSubClip(sel.ProposerPriority, vals.TotalVotingPower())` on the value of getValWithMostPriority()"
	for _, sel := range f.CallsTo(T + "(*ValidatorSet).getValWithMostPriority") {
		objs := niAssignedFromCall(f, sel)
		if len(objs) != 1 || objs[0] == nil {
			continue
		}
		m := objs[0]
		if !niMentionsObj(info, niRecvExpr(sel.Call), recv) {
			continue
		}
		if addSite != nil && (g.ReachableAfter(sel, addSite) || len(niEnclosingLoops(f, sel.Node)) > 0) {
			whySub = "selection happens before/inside the addition loop"
			continue
		}
		for _, s := range f.CallsTo(T + "safeSubClip") {
			if len(s.Call.Args) != 2 || !g.Dominates(sel, s) {
				continue
			}
			a0, a1 := s.Call.Args[0], s.Call.Args[1]
			tot, isCall := ast.Unparen(a1).(*ast.CallExpr)
			if !isCall {
				whySub = "the amount subtracted is `" + engine.ExprString(a1) + "`, not vals.TotalVotingPower()"
				continue
			}
			fo, _ := engine.ObjOf(info, tot.Fun).(*types.Func)
			if fo == nil || engine.FuncName(fo) != T+"(*ValidatorSet).TotalVotingPower" || !niMentionsObj(info, niRecvExpr(tot), recv) {
				whySub = "the amount subtracted is `" + engine.ExprString(a1) + "`, not vals.TotalVotingPower()"
				continue
			}
			if !(niSelField(info, a0, fPrio) && niMentionsObj(info, a0, m)) {
				continue
			}
			as, ok := s.Top.(*ast.AssignStmt)
			if !ok || len(as.Lhs) != 1 || !niSelField(info, as.Lhs[0], fPrio) || !niMentionsObj(info, as.Lhs[0], m) {
				continue
			}
			if len(g.Gates(s)) != 0 {
				whySub = "the subtraction is conditional"
				continue
			}
			if returnsObj(f, m) {
				okSub, whySub = true, "selected validator loses TotalVotingPower and is returned"
			}
		}
	}
	c.Check(rule, f.Name+" selected validator loses the total", f.Pos(), okSub, whySub)
	c.Floor(rule, 2, 2)
}

func c37Comparator(c *engine.Ctx, f *engine.Fn, fPrio *types.Var) {
	const rule = "priority-order"
	g := f.Graph()
	info := f.Info()
	recv := niRecv(f)
	other := paramObj(f, 0)
	n := 0
	for _, r := range niReturns(f) {
		rs := r.Node.(*ast.ReturnStmt)
		if len(rs.Results) != 1 {
			continue
		}
		ret := engine.ObjOf(info, rs.Results[0])
		if ret != recv && ret != other {
			continue
		}
		for _, ft := range niFacts(g, r) {
			cmp, ok := niAsCmp(ft)
			if !ok || !niSelField(info, cmp.X, fPrio) || !niSelField(info, cmp.Y, fPrio) {
				continue
			}
			if cmp.Op != token.GTR && cmp.Op != token.LSS {
				continue
			}
			if cmp.Op == token.LSS {
				cmp = cmp.niFlip()
			}
			// cmp: X.prio > Y.prio holds
			hi := engine.ObjOf(info, ast.Unparen(cmp.X).(*ast.SelectorExpr).X)
			lo := engine.ObjOf(info, ast.Unparen(cmp.Y).(*ast.SelectorExpr).X)
			if !((hi == recv && lo == other) || (hi == other && lo == recv)) {
				continue
			}
			n++
			who := "receiver"
			if hi == other {
				who = "argument"
			}
			c.Check(rule, f.Name+" returns the "+who+" when it has strictly higher priority", r.Pos(), ret == hi, "the validator with the higher ProposerPriority must win")
		}
	}
	c.Floor(rule, n, 2)
}
