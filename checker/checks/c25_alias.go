package checks

import (
	"go/ast"

	"gnoverif/engine"
)

// C25 extra — proof material is never built by appending to a shared slice.
// `y = append(x, more...)` with x a variable that is NOT the assignment target
// writes into x's backing array whenever x has spare capacity; doing it more
// than once (in a loop, or for several outputs) makes all results alias each
// other, so e.g. every inner op of a converted proof ends up carrying the last
// aunt. Rule: in the packages that build or convert Merkle proofs and hashes,
// the first argument of an append whose result goes elsewhere is a fresh value
// (literal, conversion, call result, make) or a capacity-clipped slice
// (`x[:n:n]`, slices.Clip), or the site is tabled. (Added after an
// independently seeded change hoisted the 0x01 prefix of ics23 inner ops into
// one pre-sized slice.)
func init() {
	extend("C25", c25Alias)
	mutants("C25",
		Mutant{"inner-op-prefix-shared", "tm2/pkg/crypto/merkle/convert.go", "	for i, aunt := range p.Aunts {\n\t\tauntRight := path[i]\n\n\t\t// combine with: 0x01 || lefthash || righthash\n\t\tinner := &ics23.InnerOp{Hash: ics23.HashOp_SHA256}\n\t\tif auntRight {\n\t\t\tinner.Prefix = []byte{1}\n\t\t\tinner.Suffix = aunt\n\t\t} else {\n\t\t\tinner.Prefix = append([]byte{1}, aunt...)\n", "	prefix := make([]byte, 1, 33)\n\tprefix[0] = 1\n\tfor i, aunt := range p.Aunts {\n\t\tauntRight := path[i]\n\n\t\t// combine with: 0x01 || lefthash || righthash\n\t\tinner := &ics23.InnerOp{Hash: ics23.HashOp_SHA256}\n\t\tif auntRight {\n\t\t\tinner.Prefix = []byte{1}\n\t\t\tinner.Suffix = aunt\n\t\t} else {\n\t\t\tinner.Prefix = append(prefix, aunt...)\n", "no-append-alias"},
	)
}

var c25AliasExempt = map[string]string{}

func c25Alias(c *engine.Ctx) {
	p := c.Load("tm2/pkg/crypto/merkle", "tm2/pkg/bptree", "tm2/pkg/store/rootmulti", "tm2/pkg/iavl", "tm2/pkg/bft/types")
	if p == nil {
		return
	}
	appends := 0
	for _, f := range p.Funcs() {
		info := f.Info()
		engine.InspectBody(f, func(n ast.Node) {
			check := func(target ast.Expr, call *ast.CallExpr, pos ast.Node) {
				if !engine.IsBuiltinCall(info, call, "append") || len(call.Args) == 0 {
					return
				}
				appends++
				src := engine.ObjOf(info, call.Args[0])
				if src == nil {
					return // literal, conversion, call result, slice expression: not a plain shared variable
				}
				if target != nil && engine.ObjOf(info, target) == src && engine.ExprString(target) == engine.ExprString(call.Args[0]) {
					return // x = append(x, …)
				}
				// hazard only if the source outlives one use: declared outside the innermost
				// enclosing loop of this append, or appended from more than once in the function.
				hazard := false
				var loop ast.Node
				engine.InspectBody(f, func(m ast.Node) {
					var body *ast.BlockStmt
					switch l := m.(type) {
					case *ast.ForStmt:
						body = l.Body
					case *ast.RangeStmt:
						body = l.Body
					}
					if body != nil && body.Pos() <= call.Pos() && call.End() <= body.End() {
						if loop == nil || (loop.Pos() <= m.Pos() && m.End() <= loop.End()) {
							loop = m
						}
					}
				})
				if loop != nil && !(loop.Pos() <= src.Pos() && src.Pos() < loop.End()) {
					hazard = true
				}
				uses := 0
				engine.InspectBody(f, func(m ast.Node) {
					if c2, ok := m.(*ast.CallExpr); ok && engine.IsBuiltinCall(info, c2, "append") && len(c2.Args) > 0 && engine.ObjOf(info, c2.Args[0]) == src {
						uses++
					}
				})
				if uses > 1 {
					hazard = true
				}
				if !hazard {
					return
				}
				t := "<value>"
				if target != nil {
					t = engine.ExprString(target)
				}
				key := f.Root().Name + " " + t + " = " + engine.ExprString(call)
				why, ok := c25AliasExempt[key]
				c.Check("no-append-alias", key, pos.Pos(), ok, "append to the shared slice `"+engine.ExprString(call.Args[0])+"` with the result stored elsewhere: results alias each other when the slice has spare capacity "+why)
			}
			switch x := n.(type) {
			case *ast.AssignStmt:
				for i, r := range x.Rhs {
					if call, ok := r.(*ast.CallExpr); ok && i < len(x.Lhs) {
						check(x.Lhs[i], call, x)
					}
				}
			case *ast.KeyValueExpr:
				if call, ok := x.Value.(*ast.CallExpr); ok {
					check(nil, call, x)
				}
			}
		})
	}
	c.Floor("no-append-alias", appends, 20)
}
