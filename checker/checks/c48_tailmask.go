package checks

import (
	"go/ast"
	"go/constant"
	"go/token"
	"go/types"

	"gnoverif/engine"
)

// C48 extra — a last-word mask is never built from a raw remainder without the
// remainder being tested for zero. BitArray keeps Bits bits in ⌈Bits/64⌉ words;
// when Bits is a multiple of 64 the last word is fully used, and a mask
// `(1 << (Bits % 64)) - 1` is then EMPTY although all 64 bits are in use. Every
// low-bits mask `(1 << S) - 1` in tm2/pkg/bitarray must therefore either
//   - have a shift count of the form `(E + 63) % 64 + 1` (range 1..64), or
//   - sit under a test that the remainder `E % 64` it shifts by is non-zero.
// (Added after an independently seeded change rewrote IsFull's last-word test
// with `mask := (1 << (Bits % 64)) - 1`: every 64·k-bit array reported full.)
// Any other shift-count shape is undecided (fails) rather than guessed.
func init() {
	extend("C48", c48TailMask)
	mutants("C48",
		Mutant{"isfull-raw-remainder-mask", "tm2/pkg/bitarray/bit_array.go", "	lastElemBits := (bA.Bits+63)%64 + 1\n\tlastElem := bA.Elems[len(bA.Elems)-1]\n\treturn (lastElem+1)&((uint64(1)<<uint(lastElemBits))-1) == 0", "	lastElem := bA.Elems[len(bA.Elems)-1]\n\tmask := (uint64(1) << uint(bA.Bits%64)) - 1\n\treturn lastElem&mask == mask", "tail-mask-nonempty"},
		Mutant{"not-mask-unguarded", "tm2/pkg/bitarray/bit_array.go", "if rem := c.Bits % 64; rem != 0 && len(c.Elems) > 0 {", "if rem := c.Bits % 64; len(c.Elems) > 0 {", "tail-mask-nonempty"},
	)
}

func c48TailMask(c *engine.Ctx) {
	p := progWith(c, "tm2/pkg/bitarray")
	if p == nil {
		return
	}
	n := 0
	for _, f := range p.FuncsIn("tm2/pkg/bitarray") {
		info := f.Info()
		isConst := func(e ast.Expr, v int64) bool {
			if tv, ok := info.Types[e]; ok && tv.Value != nil {
				if k, ok := constant.Int64Val(constant.ToInt(tv.Value)); ok {
					return k == v
				}
			}
			return false
		}
		// resolve: strip conversions, follow single-definition locals
		var resolve func(e ast.Expr, depth int) ast.Expr
		resolve = func(e ast.Expr, depth int) ast.Expr {
			e = niStripConv(info, e)
			if id, ok := e.(*ast.Ident); ok && depth < 3 {
				if d := niSingleDef(f, info.ObjectOf(id)); d != nil {
					return resolve(d, depth+1)
				}
			}
			return e
		}
		isRem64 := func(e ast.Expr) (ast.Expr, bool) {
			b, ok := e.(*ast.BinaryExpr)
			if ok && b.Op == token.REM && isConst(b.Y, 64) {
				return b.X, true
			}
			return nil, false
		}
		engine.InspectBody(f, func(x ast.Node) {
			sub, ok := x.(*ast.BinaryExpr)
			if !ok || sub.Op != token.SUB || !isConst(sub.Y, 1) {
				return
			}
			shl, ok := niStripConv(info, sub.X).(*ast.BinaryExpr)
			if !ok || shl.Op != token.SHL || !isConst(niStripConv(info, shl.X), 1) {
				return
			}
			n++
			key := f.Name + " mask " + engine.ExprString(sub)
			cnt := resolve(shl.Y, 0)
			// (E + 63) % 64 + 1
			if add, ok := cnt.(*ast.BinaryExpr); ok && add.Op == token.ADD && isConst(add.Y, 1) {
				if inner, ok := isRem64(niStripConv(info, add.X)); ok {
					if ib, ok := niStripConv(info, inner).(*ast.BinaryExpr); ok && ib.Op == token.ADD && (isConst(ib.Y, 63) || isConst(ib.X, 63)) {
						c.Check("tail-mask-nonempty", key, sub.Pos(), true, "shift count (E+63)%64+1 is in 1..64")
						return
					}
				}
			}
			if _, ok := isRem64(cnt); !ok {
				c.Undecided("tail-mask-nonempty", key, "shift count `"+engine.ExprString(cnt)+"` is neither a remainder modulo 64 nor (E+63)%64+1")
				return
			}
			// raw remainder: a gate must establish that it is non-zero
			site := f.SiteOf(sub)
			okGate := false
			if site != nil {
				for _, gt := range f.Graph().Gates(site) {
					for _, a := range engine.Atoms(gt.Cond) {
						b, isB := ast.Unparen(a).(*ast.BinaryExpr)
						if !isB || !isConst(b.Y, 0) {
							continue
						}
						if engine.ExprString(resolve(b.X, 0)) != engine.ExprString(cnt) {
							continue
						}
						switch {
						case (b.Op == token.NEQ || b.Op == token.GTR) && gt.OnTrue && isConjunct(gt.Cond, a),
							b.Op == token.EQL && !gt.OnTrue && isDisjunct(gt.Cond, a):
							okGate = true
						}
					}
				}
			}
			c.Check("tail-mask-nonempty", key, sub.Pos(), okGate,
				"the mask is built from the raw remainder `"+engine.ExprString(cnt)+"`, which is 0 when the last word is fully used (Bits a multiple of 64): the mask is then empty although 64 bits are in use; test the remainder for zero or use (Bits+63)%64+1")
		})
	}
	c.Floor("tail-mask-nonempty", n, 2)
	_ = types.Universe
}

// isConjunct reports whether atom a is a top-level &&-conjunct of cond (so cond true ⇒ a true).
func isConjunct(cond, a ast.Expr) bool {
	for _, x := range engine.Conjuncts(cond, token.LAND) {
		if ast.Unparen(x) == ast.Unparen(a) {
			return true
		}
	}
	return false
}

// isDisjunct reports whether atom a is a top-level ||-disjunct of cond (so cond false ⇒ a false).
func isDisjunct(cond, a ast.Expr) bool {
	for _, x := range engine.Conjuncts(cond, token.LOR) {
		if ast.Unparen(x) == ast.Unparen(a) {
			return true
		}
	}
	return false
}
