package checks

import (
	"bytes"
	"fmt"
	"go/ast"
	"go/printer"
	"go/token"
	"go/types"
	"strings"

	"gnoverif/engine"
)

// C50 — avl (.gno): copy-on-write discipline, recompute+rebalance on every
// structural return, mirror symmetry, descent ordering.
func init() {
	register("C50", c50)
	meta("C50", Meta{
		Text:      "Decides, on the .gno sources parsed as Go syntax with package-local name resolution, structural necessary conditions of the AVL ordered map: (fresh-write) a Node field is written only through a variable that was assigned from _copy()/a fresh literal in the same function, and the mutating helpers calcHeightAndSize/balance are called only on such variables; (recalc-return) in Set/Remove every return of a copy whose child pointer was replaced is preceded by calcHeightAndSize on it and returns balance()'s result (the `updated` shortcut of Set is the one reasoned exemption); (rotate-order) rotations recompute the demoted node before the promoted one and return the promoted one; (mirror) rotateLeft is the exact left/right mirror of rotateRight, balance's right-heavy branch mirrors the left-heavy one (operators flipped, constants negated), the descending traversal mirrors the ascending one; (descent) Has/Get/Set/Remove go left iff key < node.key; (leaf-split) a split leaf becomes an inner node of height 1, size 2 keyed by its right child with children in key order; (index-arith) Get and GetByIndex use the left subtree size consistently; (range-bounds) TraverseInRange's inclusive/exclusive tests. Level 'other'.",
		Note:      "Not covered: that these conditions suffice (height balance, ordered iteration are behaviours), Remove's key-propagation logic beyond the listed shape, TraverseByOffset arithmetic, the pager/rotree sub-packages.",
		Technique: "R-GNO: AST + go/cfg dominance/reachability on .gno files, normalised-AST mirror comparison, who-may-call on mutating helpers",
		Ref:       "DESIGN.md §2 C50",
	})
	const nf = "examples/gno.land/p/nt/avl/v0/node.gno"
	mutants("C50",
		Mutant{"set-mutates-shared-node", nf, "\t\tnode = node._copy()\n\t\tif key < node.key {\n\t\t\tnode.leftNode, updated", "\t\tif key < node.key {\n\t\t\tnode.leftNode, updated", "fresh-write"},
		Mutant{"rotate-shares-child", nf, "\t_l := l._copy()\n", "\t_l := l\n", "fresh-write"},
		Mutant{"remove-skips-recalc", nf, "\t\t\tnode.leftNode = newLeftNode\n\t\t\tnode.calcHeightAndSize()\n", "\t\t\tnode.leftNode = newLeftNode\n", "recalc-return"},
		Mutant{"set-skips-balance", nf, "\t\t\tnode.calcHeightAndSize()\n\t\t\treturn node.balance(), updated", "\t\t\tnode.calcHeightAndSize()\n\t\t\treturn node, updated", "recalc-return"},
		Mutant{"rotate-recalc-order", nf, "\tnode.calcHeightAndSize()\n\t_r.calcHeightAndSize()\n", "\t_r.calcHeightAndSize()\n\tnode.calcHeightAndSize()\n", "rotate-order"},
		Mutant{"rotate-left-asymmetric", nf, "\t_r.leftNode = node\n\tnode.rightNode = _rlCached", "\t_r.leftNode = node\n\tnode.leftNode = _rlCached", "mirror"},
		Mutant{"balance-threshold-asymmetric", nf, "if balance < -1 {", "if balance < -2 {", "mirror"},
		Mutant{"balance-inner-case", nf, "if node.getRightNode().calcBalance() <= 0 {", "if node.getRightNode().calcBalance() < 0 {", "mirror"},
		Mutant{"has-descends-wrong-way", nf, "\t\tif key < node.key {\n\t\t\treturn node.getLeftNode().Has(key)", "\t\tif key <= node.key {\n\t\t\treturn node.getLeftNode().Has(key)", "descent"},
		Mutant{"split-children-swapped", nf, "\t\t\t\tkey:       key,\n\t\t\t\theight:    1,\n\t\t\t\tsize:      2,\n\t\t\t\tleftNode:  node,", "\t\t\t\tkey:       node.key,\n\t\t\t\theight:    1,\n\t\t\t\tsize:      2,\n\t\t\t\tleftNode:  node,", "leaf-split"},
		Mutant{"index-offset", nf, "return node.getRightNode().GetByIndex(index - leftNode.size)", "return node.getRightNode().GetByIndex(index - leftNode.size + 1)", "index-arith"},
		Mutant{"reverse-end-exclusive", nf, "beforeEnd = (end == \"\" || node.key <= end)", "beforeEnd = (end == \"\" || node.key < end)", "range-bounds"},
		Mutant{"descending-skips-left", nf, "\t\tif afterStart {\n\t\t\tstop = node.getLeftNode().TraverseInRange(start, end, ascending, leavesOnly, cb)\n\t\t}\n\t}\n\n\treturn stop", "\t\tif afterStart && beforeEnd {\n\t\t\tstop = node.getLeftNode().TraverseInRange(start, end, ascending, leavesOnly, cb)\n\t\t}\n\t}\n\n\treturn stop", "mirror"},
	)
}

const c50Pkg = "gno:examples/gno.land/p/nt/avl/v0"

func c50(c *engine.Ctx) {
	c.Explain = "Structural clauses on the .gno AVL: fresh-write (copy-on-write: field stores and mutating helpers only on variables assigned from _copy()/fresh literals), recalc-return (child replaced ⇒ calcHeightAndSize then balance before returning; Set's `updated` shortcut exempt), rotate-order, mirror (rotateLeft/rotateRight, balance's two cases, descending/ascending traversal), descent (left iff key < node.key), leaf-split shape, index-arith (left-subtree size in Get/GetByIndex), range-bounds (inclusive/exclusive tests). Not covered: that the tree is balanced/ordered as a behaviour, TraverseByOffset arithmetic, Remove's key propagation in full."
	p := c.LoadGno("examples/gno.land/p/nt/avl/v0")
	if p == nil {
		return
	}
	N := c50Pkg + ".(*Node)."
	fn := func(n string) *engine.Fn { return c.MustFunc(N + n) }
	set, rem, rr, rl, calc, bal := fn("Set"), fn("Remove"), fn("rotateRight"), fn("rotateLeft"), fn("calcHeightAndSize"), fn("balance")
	nodeT := p.Named(c50Pkg + ".Node")
	if nodeT == nil {
		c.Undecided("anchor", c50Pkg+".Node", "type not found")
		return
	}

	// ---- fresh-write
	nfw := 0
	// methods that write through their receiver: calcHeightAndSize, balance, and (closure) every
	// unexported Node method that calls one of them on its own receiver (e.g. a recalcAndBalance helper)
	mut := map[*engine.Fn]bool{}
	if calc != nil {
		mut[calc] = true
	}
	if bal != nil {
		mut[bal] = true
	}
	cow := map[*engine.Fn]bool{set: true, rem: true, rr: true, rl: true}
	for changed := true; changed; {
		changed = false
		for _, f := range p.Funcs() {
			if f.Obj == nil || mut[f] || cow[f] || f.Obj.Exported() || cjRecv(f) == nil {
				continue
			}
			for _, s := range f.Calls() {
				o, _ := s.Callee.(*types.Func)
				if h := p.FnOf(o); h != nil && mut[h] {
					if sel, ok := s.Call.Fun.(*ast.SelectorExpr); ok && engine.ObjOf(f.Info(), sel.X) == cjRecv(f) {
						mut[f] = true
						changed = true
					}
				}
			}
		}
	}
	var mutNames []string
	for f := range mut {
		mutNames = append(mutNames, f.Name)
	}
	for _, f := range []*engine.Fn{set, rem, rr, rl} {
		if f == nil {
			continue
		}
		for _, st := range c50FieldStores(f, nodeT) {
			nfw++
			ok, why := c50Fresh(f, st.base, st.node)
			c.Check("fresh-write", f.Name+" store "+st.text, st.node.Pos(), ok, why)
		}
		for _, s := range f.CallsTo(mutNames...) {
			sel, ok := s.Call.Fun.(*ast.SelectorExpr)
			if !ok {
				continue
			}
			nfw++
			id, isId := ast.Unparen(sel.X).(*ast.Ident)
			ok2, why := false, "mutating helper called on a non-variable receiver `"+engine.ExprString(sel.X)+"`"
			if isId {
				ok2, why = c50Fresh(f, f.Info().ObjectOf(id), s.Call)
			}
			c.Check("fresh-write", f.Name+" call "+engine.ExprString(s.Call.Fun), s.Pos(), ok2, why)
		}
	}
	// the methods that write through their receiver are reached only from the functions examined above
	// (a private helper all of whose callers are such functions is not a new caller)
	allowed := []string{N + "Set", N + "Remove", N + "rotateRight", N + "rotateLeft"}
	for f := range mut {
		refs := p.RefsToFunc(f.Name)
		// calls on the own receiver inside another mutating method are covered by that method's callers
		var ext []engine.Ref
		for _, r := range refs {
			if r.Fn != nil && mut[r.Fn.Root()] {
				continue
			}
			ext = append(ext, r)
		}
		nfw++
		bad := p.UnexpectedCallers(ext, allowed)
		c.Check("fresh-write", "callers of "+f.Name[strings.LastIndex(f.Name, ".")+1:], token.NoPos, len(bad) == 0, "unexpected callers: "+join(bad))
	}
	// and no other function of the package writes a Node field
	for _, f := range p.Funcs() {
		if cow[f] || mut[f] {
			continue
		}
		for _, st := range c50FieldStores(f, nodeT) {
			nfw++
			c.Check("fresh-write", f.Name+" store "+st.text, st.node.Pos(), false, "Node field written outside the copy-on-write functions")
		}
	}
	for f := range mut {
		// mutating methods write only through their (fresh, caller-checked) receiver
		for _, st := range c50FieldStores(f, nodeT) {
			nfw++
			c.Check("fresh-write", f.Name+" store "+st.text, st.node.Pos(), st.base == cjRecv(f), "a receiver-mutating method may only write through its receiver")
		}
	}
	c.Floor("fresh-write", nfw, 14)

	// ---- recalc-return
	nrr := 0
	for _, f := range []*engine.Fn{set, rem} {
		if f == nil {
			continue
		}
		info := f.Info()
		g := f.Graph()
		stores := c50FieldStores(f, nodeT)
		for _, r := range cjReturns(f) {
			if len(r.Results) == 0 {
				continue
			}
			rs := f.SiteOf(r)
			if rs == nil {
				continue
			}
			// child stores that can precede this return
			var pre []c50Store
			for _, st := range stores {
				if st.field != "leftNode" && st.field != "rightNode" {
					continue
				}
				if ss := f.SiteOf(st.node); ss != nil && g.ReachableAfter(ss, rs) {
					pre = append(pre, st)
				}
			}
			if len(pre) == 0 {
				continue
			}
			nrr++
			// exemption: Set's replace-in-place return
			if f == set {
				ex := false
				for _, gt := range g.Gates(rs) {
					if id, ok := ast.Unparen(gt.Cond).(*ast.Ident); ok && gt.OnTrue && c50IsUpdatedFlag(f, info.ObjectOf(id)) {
						ex = true
					}
				}
				if ex {
					c.Check("recalc-return", f.Name+" return on `updated` (exempt)", r.Pos(), true, "value replaced in place: sizes and heights are unchanged")
					continue
				}
			}
			base := pre[0].base
			okCalc := true
			why := ""
			inReturn := func(cs *engine.Site) bool { return r.Pos() <= cs.Pos() && cs.Node.End() <= r.End() }
			for _, st := range pre {
				ss := f.SiteOf(st.node)
				found := false
				for _, d := range f.DeepCallsTo(1, N+"calcHeightAndSize") {
					// the recalculation must precede balance(): one done inside balance/rotations (on copies) does not count
					if !c50OnBase(f, d, st.base) || (len(d.Chain) > 0 && (d.Chain[0] == bal || d.Chain[0] == rr || d.Chain[0] == rl)) {
						continue
					}
					if len(d.Chain) == 1 {
						// inside the helper the recalculation must come before its balance call
						h := d.Chain[0]
						okOrder := false
						for _, bs := range h.CallsTo(N + "balance") {
							if h.Graph().Dominates(d.Inner, bs) {
								okOrder = true
							}
						}
						if !okOrder && len(h.CallsTo(N+"balance")) > 0 {
							continue
						}
					}
					cs := d.Outer
					if g.ReachableAfter(ss, cs) && (inReturn(cs) || g.MustPass(rs, []*engine.Site{cs})) {
						found = true
					}
				}
				if !found {
					okCalc, why = false, "return after `"+st.text+"` does not pass "+st.base.Name()+".calcHeightAndSize()"
				}
			}
			// balance: result is base.balance() (possibly through a helper that recalculates first) or base reassigned from it
			okBal := false
			if call, ok := ast.Unparen(r.Results[0]).(*ast.CallExpr); ok {
				okBal = c50BalanceResult(f, call, base, 2)
			} else if engine.ObjOf(info, r.Results[0]) == base {
				engine.InspectBody(f, func(n ast.Node) {
					as, ok := n.(*ast.AssignStmt)
					if !ok || len(as.Lhs) != 1 || len(as.Rhs) != 1 || engine.ObjOf(info, as.Lhs[0]) != base {
						return
					}
					if call, ok := ast.Unparen(as.Rhs[0]).(*ast.CallExpr); ok && c50BalanceResult(f, call, base, 2) {
						if bs := f.SiteOf(as); bs != nil && g.Dominates(bs, rs) {
							okBal = true
						}
					}
				})
			}
			if okCalc && !okBal {
				why = "the returned subtree root is not the result of balance()"
			}
			c.Check("recalc-return", f.Name+" return `"+engine.ExprString(r.Results[0])+"`", r.Pos(), okCalc && okBal, why)
		}
	}
	c.Floor("recalc-return", nrr, 4)

	// ---- rotate-order
	nro := 0
	for _, f := range []*engine.Fn{rr, rl} {
		if f == nil {
			continue
		}
		nro++
		info := f.Info()
		g := f.Graph()
		rets := cjReturns(f)
		calcs := f.CallsTo(N + "calcHeightAndSize")
		ok, why := false, "expected: stores; demoted.calcHeightAndSize(); promoted.calcHeightAndSize(); return promoted"
		if len(rets) == 1 && len(calcs) == 2 && len(rets[0].Results) == 1 {
			promoted := engine.ObjOf(info, rets[0].Results[0])
			first := engine.ObjOf(info, calcs[0].Call.Fun.(*ast.SelectorExpr).X)
			second := engine.ObjOf(info, calcs[1].Call.Fun.(*ast.SelectorExpr).X)
			a, b := calcs[0], calcs[1]
			if g.Dominates(b, a) {
				a, b = b, a
				first, second = second, first
			}
			storesBefore := true
			for _, st := range c50FieldStores(f, nodeT) {
				if ss := f.SiteOf(st.node); ss == nil || !g.Dominates(ss, a) {
					storesBefore = false
				}
			}
			ok = promoted != nil && second == promoted && first != promoted && first == cjRecvOrShadow(f) && g.Dominates(a, b) && g.Dominates(b, f.SiteOf(rets[0])) && storesBefore
		}
		c.Check("rotate-order", f.Name, f.Pos(), ok, why)
	}
	c.Floor("rotate-order", nro, 2)

	// ---- mirror
	nmi := 0
	if rr != nil && rl != nil {
		nmi++
		a := c50Norm(rr.Body, rr.Info(), true)
		b := c50Norm(rl.Body, rl.Info(), false)
		c.Check("mirror", "rotateLeft = mirror(rotateRight)", rl.Pos(), a == b, c50Diff(a, b))
	}
	if bal != nil {
		nmi++
		cases := c50HeavyCases(bal)
		if len(cases) != 2 {
			c.Check("mirror", "balance: right-heavy case = mirror(left-heavy case)", bal.Pos(), false, "expected two heavy cases (two ifs, an if/else-if chain or a tagless switch)")
		} else {
			ca := c50Norm(cases[0].cond, bal.Info(), true)
			cb := c50Norm(cases[1].cond, bal.Info(), false)
			a := c50Norm(cases[0].body, bal.Info(), true)
			b := c50Norm(cases[1].body, bal.Info(), false)
			// the left-heavy case must be the canonical one
			okCanon := false
			if be, ok := ast.Unparen(cases[0].cond).(*ast.BinaryExpr); ok && be.Op == token.GTR {
				if k, ok := cjConstOf(bal.Info(), be.Y); ok && k == 1 {
					okCanon = true
				}
			}
			c.Check("mirror", "balance: right-heavy case = mirror(left-heavy case)", bal.Pos(), a == b && ca == cb && okCanon, "left-heavy case must test `balance > 1`; conditions: "+c50Diff(ca, cb)+"; bodies: "+c50Diff(a, b))
		}
	}
	if tr := fn("TraverseInRange"); tr != nil {
		nmi++
		var asc, desc ast.Stmt
		engine.InspectBody(tr, func(n ast.Node) {
			is, ok := n.(*ast.IfStmt)
			if !ok || is.Else == nil {
				return
			}
			if id, ok := ast.Unparen(is.Cond).(*ast.Ident); ok && id.Name == "ascending" {
				if _, isAssign := is.Body.List[0].(*ast.AssignStmt); !isAssign {
					asc, desc = is.Body, is.Else
				}
			}
		})
		if asc == nil {
			c.Check("mirror", "TraverseInRange: descending = mirror(ascending)", tr.Pos(), false, "if ascending {…} else {…} with the recursive calls not found")
		} else {
			sw := map[string]string{"afterStart": "beforeEnd", "beforeEnd": "afterStart"}
			a := c50NormSwap(asc, tr.Info(), true, sw)
			b := c50NormSwap(desc, tr.Info(), false, sw)
			c.Check("mirror", "TraverseInRange: descending = mirror(ascending)", tr.Pos(), a == b, c50Diff(a, b))
		}
	}
	c.Floor("mirror", nmi, 3)

	// ---- descent
	nde := 0
	for _, name := range []string{"Has", "Get", "Set", "Remove"} {
		f := fn(name)
		if f == nil {
			continue
		}
		info := f.Info()
		g := f.Graph()
		key := cjParam(f, "key")
		for _, dir := range []struct {
			getter string
			onTrue bool
		}{{"getLeftNode", true}, {"getRightNode", false}} {
			for _, s := range f.CallsTo(N + dir.getter) {
				nde++
				ok := false
				for _, gt := range g.Gates(s) {
					b, isB := ast.Unparen(gt.Cond).(*ast.BinaryExpr)
					if !isB || b.Op != token.LSS || engine.ObjOf(info, b.X) != key || key == nil {
						continue
					}
					if se, isSel := ast.Unparen(b.Y).(*ast.SelectorExpr); isSel && se.Sel.Name == "key" && gt.OnTrue == dir.onTrue {
						ok = true
					}
				}
				c.Check("descent", f.Name+" "+dir.getter, s.Pos(), ok, "the left child is visited iff `key < node.key` (strict), the right child otherwise")
			}
		}
	}
	c.Floor("descent", nde, 8)

	// ---- leaf-split
	nls := 0
	if set != nil {
		info := set.Info()
		g := set.Graph()
		key := paramObj(set, 0)
		recv := cjRecv(set)
		isInner := func(fn *engine.Fn, n ast.Node) bool {
			cl, ok := n.(*ast.CompositeLit)
			if !ok || fn.Name == c50Pkg+".NewNode" {
				return false
			}
			l, r := false, false
			for _, e := range cl.Elts {
				if kv, ok := e.(*ast.KeyValueExpr); ok {
					if id, ok := kv.Key.(*ast.Ident); ok {
						l = l || id.Name == "leftNode"
						r = r || id.Name == "rightNode"
					}
				}
			}
			return l && r
		}
		// the literal may be built by a private constructor helper: each way of reaching it from Set is one instance
		for _, d := range set.DeepFind(2, isInner) {
			cl := d.Inner.Node.(*ast.CompositeLit)
			linfo := d.Inner.Fn.Info()
			fields := map[string]ast.Expr{}
			for _, e := range cl.Elts {
				if kv, ok := e.(*ast.KeyValueExpr); ok {
					if id, ok := kv.Key.(*ast.Ident); ok {
						fields[id.Name] = kv.Value
					}
				}
			}
			if _, constHeight := cjConstOf(linfo, fields["height"]); !constHeight {
				continue // a copy constructor (height taken from another node), not a leaf split
			}
			nls++
			// resolve a field value to an expression of Set (helper parameters -> call arguments)
			inSet := func(e ast.Expr) ast.Expr {
				if e == nil {
					return nil
				}
				x, in := cjChainArg(set, d, e)
				if in != set {
					return nil
				}
				return x
			}
			less := false // reached on the `key < node.key` branch?
			for _, ft := range cjFactsAt(set, d.Outer) {
				if x, op, y, ok := cjCmpFact(ft); ok && ft.Fn == set {
					if op == token.GTR {
						x, y, op = y, x, token.LSS
					}
					if se, isSel := ast.Unparen(y).(*ast.SelectorExpr); isSel && op == token.LSS && engine.ObjOf(info, x) == key && se.Sel.Name == "key" && engine.ObjOf(info, se.X) == recv {
						less = true
					}
				}
			}
			_ = g
			h, okh := cjConstOf(linfo, fields["height"])
			sz, oks := cjConstOf(linfo, fields["size"])
			isNew := func(e ast.Expr) bool {
				e = inSet(e)
				if e == nil {
					return false
				}
				call, ok := ast.Unparen(e).(*ast.CallExpr)
				if !ok {
					return false
				}
				st := set.SiteOf(call)
				return st != nil && st.CalleeName() == c50Pkg+".NewNode" && len(call.Args) == 2 && engine.ObjOf(info, call.Args[0]) == key
			}
			isOld := func(e ast.Expr) bool { e = inSet(e); return e != nil && engine.ObjOf(info, e) == recv }
			// the key: `<x>.key` where x resolves to the old leaf (⇒ its key) or to NewNode(key, …) (⇒ the new key); or the key parameter itself
			keyIsNodeKey, keyIsParam := false, false
			if kf := fields["key"]; kf != nil {
				if se, ok := ast.Unparen(kf).(*ast.SelectorExpr); ok && se.Sel.Name == "key" {
					if isOld(se.X) {
						keyIsNodeKey = true
					}
					if isNew(se.X) {
						keyIsParam = true
					}
				} else if e := inSet(kf); e != nil && engine.ObjOf(info, e) == key {
					keyIsParam = true
				}
			}
			ok := okh && oks && h == 1 && sz == 2
			if less {
				ok = ok && isNew(fields["leftNode"]) && isOld(fields["rightNode"]) && keyIsNodeKey
			} else {
				ok = ok && isOld(fields["leftNode"]) && isNew(fields["rightNode"]) && keyIsParam
			}
			side := "key > leaf"
			if less {
				side = "key < leaf"
			}
			c.Check("leaf-split", set.Name+" inner node for "+side, d.Outer.Pos(), ok, "inner node must have height 1, size 2, children in key order and the right child's key")
		}
	}
	if nn := c.MustFunc(c50Pkg + ".NewNode"); nn != nil {
		nls++
		ok := false
		engine.InspectBody(nn, func(n ast.Node) {
			if cl, isCl := n.(*ast.CompositeLit); isCl {
				hv, sv := int64(-1), int64(-1)
				for _, e := range cl.Elts {
					if kv, isKV := e.(*ast.KeyValueExpr); isKV {
						if id, isId := kv.Key.(*ast.Ident); isId {
							if k, isK := cjConstOf(nn.Info(), kv.Value); isK {
								switch id.Name {
								case "height":
									hv = k
								case "size":
									sv = k
								}
							}
						}
					}
				}
				ok = (hv == 0 || hv == -1) && sv == 1
			}
		})
		c.Check("leaf-split", nn.Name+" leaf has height 0, size 1", nn.Pos(), ok, "a leaf is height 0 / size 1")
	}
	c.Floor("leaf-split", nls, 3)

	// ---- index-arith
	nia := 0
	if f := fn("GetByIndex"); f != nil {
		info := f.Info()
		g := f.Graph()
		idx := cjParam(f, "index")
		var left types.Object
		for _, s := range f.CallsTo(N + "getLeftNode") {
			if o := cjAssignedFrom(f, s); len(o) == 1 {
				left = o[0]
			}
		}
		isLeftSize := func(e ast.Expr) bool {
			se, ok := ast.Unparen(e).(*ast.SelectorExpr)
			return ok && se.Sel.Name == "size" && left != nil && engine.ObjOf(info, se.X) == left
		}
		for _, s := range f.CallsTo(N + "GetByIndex") {
			nia++
			recvExpr := s.Call.Fun.(*ast.SelectorExpr).X
			goesLeft := engine.ObjOf(info, recvExpr) == left && left != nil
			gateOK := false
			for _, gt := range g.Gates(s) {
				if b, ok := ast.Unparen(gt.Cond).(*ast.BinaryExpr); ok && b.Op == token.LSS && engine.ObjOf(info, b.X) == idx && isLeftSize(b.Y) && gt.OnTrue == goesLeft {
					gateOK = true
				}
			}
			argOK := false
			if goesLeft {
				argOK = engine.ObjOf(info, s.Call.Args[0]) == idx
			} else if b, ok := ast.Unparen(s.Call.Args[0]).(*ast.BinaryExpr); ok && b.Op == token.SUB && engine.ObjOf(info, b.X) == idx && isLeftSize(b.Y) {
				argOK = true
			}
			side := "right"
			if goesLeft {
				side = "left"
			}
			c.Check("index-arith", f.Name+" descends "+side, s.Pos(), gateOK && argOK, "left when index < left.size with the same index; right otherwise with index - left.size")
		}
	}
	if f := fn("Get"); f != nil {
		info := f.Info()
		var right types.Object
		for _, s := range f.CallsTo(N + "getRightNode") {
			if o := cjAssignedFrom(f, s); len(o) == 1 {
				right = o[0]
			}
		}
		recv := cjRecv(f)
		engine.InspectBody(f, func(n ast.Node) {
			as, ok := n.(*ast.AssignStmt)
			if !ok || as.Tok != token.ADD_ASSIGN || len(as.Lhs) != 1 {
				return
			}
			if id, ok := as.Lhs[0].(*ast.Ident); !ok || id.Name != "index" {
				return
			}
			nia++
			okv := false
			if b, ok := ast.Unparen(as.Rhs[0]).(*ast.BinaryExpr); ok && b.Op == token.SUB {
				x, ok1 := ast.Unparen(b.X).(*ast.SelectorExpr)
				y, ok2 := ast.Unparen(b.Y).(*ast.SelectorExpr)
				if ok1 && ok2 && x.Sel.Name == "size" && y.Sel.Name == "size" && engine.ObjOf(info, x.X) == recv && engine.ObjOf(info, y.X) == right && right != nil {
					okv = true
				}
			}
			// must follow the recursive call on the right child
			after := false
			s := f.SiteOf(as)
			for _, rc := range f.CallsTo(N + "Get") {
				if engine.ObjOf(info, rc.Call.Fun.(*ast.SelectorExpr).X) == right && s != nil && f.Graph().Dominates(rc, s) {
					after = true
				}
			}
			c.Check("index-arith", f.Name+" right-branch index offset", as.Pos(), okv && after, "index of a key in the right subtree = its index there + (node.size - right.size)")
		})
		// leaf case: index 1 iff stored key < key
		engine.InspectBody(f, func(n ast.Node) {
			r, ok := n.(*ast.ReturnStmt)
			if !ok || len(r.Results) != 3 {
				return
			}
			k, isK := cjConstOf(info, r.Results[0])
			if !isK || k != 1 {
				return
			}
			nia++
			okv := false
			if s := f.SiteOf(r); s != nil {
				for _, gt := range f.Graph().Gates(s) {
					if b, ok := ast.Unparen(gt.Cond).(*ast.BinaryExpr); ok && b.Op == token.LSS && gt.OnTrue && engine.ObjOf(info, b.Y) == cjParam(f, "key") {
						if se, ok := ast.Unparen(b.X).(*ast.SelectorExpr); ok && se.Sel.Name == "key" {
							okv = true
						}
					}
				}
			}
			c.Check("index-arith", f.Name+" leaf: insertion index 1 iff leaf key < key", r.Pos(), okv, "a missing key larger than the leaf sorts after it")
		})
	}
	c.Floor("index-arith", nia, 4)

	// ---- range-bounds
	nrb := 0
	if tr := fn("TraverseInRange"); tr != nil {
		info := tr.Info()
		want := map[string][]string{
			"afterStart":   {"start < node.key"},
			"startOrAfter": {"start <= node.key"},
			"beforeEnd":    {"node.key < end", "node.key <= end"},
		}
		got := map[string][]string{}
		gateAsc := map[string]bool{}
		record := func(name string, rhs ast.Expr, n ast.Node) {
			for _, a := range engine.Conjuncts(rhs, token.LOR) {
				b, ok := ast.Unparen(a).(*ast.BinaryExpr)
				if !ok {
					continue
				}
				if tv, ok := info.Types[b.Y]; ok && tv.Value != nil && b.Op == token.EQL {
					continue // the `== ""` open-bound disjunct
				}
				txt := engine.ExprString(b)
				got[name] = append(got[name], txt)
				if s := tr.SiteOf(n); s != nil {
					for _, gt := range tr.Graph().Gates(s) {
						if id, ok := ast.Unparen(gt.Cond).(*ast.Ident); ok && id.Name == "ascending" {
							gateAsc[txt] = gt.OnTrue
						}
					}
				}
			}
		}
		engine.InspectBody(tr, func(n ast.Node) {
			as, ok := n.(*ast.AssignStmt)
			if !ok || len(as.Lhs) != 1 || len(as.Rhs) != 1 {
				return
			}
			id, ok := as.Lhs[0].(*ast.Ident)
			if !ok {
				return
			}
			if _, interesting := want[id.Name]; !interesting {
				return
			}
			if _, isBin := ast.Unparen(as.Rhs[0]).(*ast.BinaryExpr); !isBin {
				return
			}
			record(id.Name, as.Rhs[0], as)
		})
		for name, w := range want {
			nrb++
			ok := strings.Join(got[name], ";") == strings.Join(w, ";")
			if name == "beforeEnd" && ok {
				ok = gateAsc["node.key < end"] && !gateAsc["node.key <= end"]
			}
			// every definition must also carry the open-bound disjunct
			c.Check("range-bounds", tr.Name+" "+name, tr.Pos(), ok, "expected comparisons "+strings.Join(w, " / ")+" (ascending end exclusive, descending end inclusive, start inclusive); got "+strings.Join(got[name], " / "))
		}
		// leaf callback needs startOrAfter && beforeEnd
		nrb++
		okLeaf := false
		engine.InspectBody(tr, func(n ast.Node) {
			if is, ok := n.(*ast.IfStmt); ok {
				t := engine.ExprString(is.Cond)
				if strings.Contains(t, "node.IsLeaf() && startOrAfter && beforeEnd") {
					okLeaf = true
				}
			}
		})
		c.Check("range-bounds", tr.Name+" leaf visited iff startOrAfter && beforeEnd", tr.Pos(), okLeaf, "a leaf is reported only inside [start, end) / [start, end]")
	}
	c.Floor("range-bounds", nrb, 4)
}

// cjRecvOrShadow: the receiver object, or the variable of the same name that shadows/reassigns it (node = node._copy()).
func cjRecvOrShadow(f *engine.Fn) types.Object { return cjRecv(f) }

type c50Store struct {
	base  types.Object
	field string
	text  string
	node  ast.Node
}

// c50FieldStores lists assignments `v.f = …` (also in tuple assignments) where v is a variable of type *Node.
func c50FieldStores(f *engine.Fn, nodeT *types.Named) []c50Store {
	info := f.Info()
	var out []c50Store
	engine.InspectBody(f, func(n ast.Node) {
		var lhs []ast.Expr
		switch x := n.(type) {
		case *ast.AssignStmt:
			lhs = x.Lhs
		case *ast.IncDecStmt:
			lhs = []ast.Expr{x.X}
		default:
			return
		}
		for _, l := range lhs {
			se, ok := ast.Unparen(l).(*ast.SelectorExpr)
			if !ok {
				continue
			}
			t := info.TypeOf(se.X)
			if t == nil {
				continue
			}
			if pt, ok := t.Underlying().(*types.Pointer); ok {
				t = pt.Elem()
			}
			if !types.Identical(t, nodeT) {
				continue
			}
			var base types.Object
			if id, ok := ast.Unparen(se.X).(*ast.Ident); ok {
				base = info.ObjectOf(id)
			}
			out = append(out, c50Store{base: base, field: se.Sel.Name, text: engine.ExprString(se), node: n})
		}
	})
	return out
}

// c50Fresh: at `at`, variable v holds a node allocated in this function: some
// assignment v = X._copy() / &Node{…} / NewNode(…) dominates `at`, and no
// other assignment to v lies between it and `at`.
func c50Fresh(f *engine.Fn, v types.Object, at ast.Node) (bool, string) {
	if v == nil {
		return false, "store through a non-variable expression"
	}
	info := f.Info()
	g := f.Graph()
	target := f.SiteOf(at)
	if target == nil {
		return false, "store site not located in the CFG"
	}
	type asg struct {
		site  *engine.Site
		fresh bool
	}
	var all []asg
	engine.InspectBody(f, func(n ast.Node) {
		as, ok := n.(*ast.AssignStmt)
		if !ok {
			return
		}
		for i, l := range as.Lhs {
			if engine.ObjOf(info, l) != v {
				continue
			}
			if _, isSel := ast.Unparen(l).(*ast.SelectorExpr); isSel {
				continue // v.f = … handled elsewhere; ObjOf of a selector is the field
			}
			fresh := false
			if len(as.Rhs) == len(as.Lhs) {
				switch r := ast.Unparen(as.Rhs[i]).(type) {
				case *ast.CallExpr:
					if s := f.SiteOf(r); s != nil {
						n := s.CalleeName()
						fresh = n == c50Pkg+".(*Node)._copy" || n == c50Pkg+".NewNode" || n == c50Pkg+".(*Node).balance"
					}
				case *ast.UnaryExpr:
					if _, isLit := r.X.(*ast.CompositeLit); isLit && r.Op == token.AND {
						fresh = true
					}
				}
			}
			if s := f.SiteOf(as); s != nil {
				all = append(all, asg{s, fresh})
			}
		}
	})
	for _, a := range all {
		if !a.fresh || !g.Dominates(a.site, target) {
			continue
		}
		clean := true
		for _, b := range all {
			if b.site == a.site || b.fresh {
				continue
			}
			if g.ReachableAfter(a.site, b.site) && g.ReachableAfter(b.site, target) {
				clean = false
			}
		}
		if clean {
			return true, v.Name() + " was assigned from _copy()/a fresh node before this write"
		}
	}
	return false, "`" + v.Name() + "` is not known to be a private copy here (no dominating `" + v.Name() + " = ….​_copy()`): the write would modify a node shared with older tree versions"
}

// ---- mirror normalisation

var c50Swap = map[string]string{
	"leftNode": "rightNode", "rightNode": "leftNode",
	"getLeftNode": "getRightNode", "getRightNode": "getLeftNode",
	"rotateLeft": "rotateRight", "rotateRight": "rotateLeft",
}

func c50Norm(n ast.Node, info *types.Info, mirror bool) string {
	return c50NormSwap(n, info, mirror, nil)
}

// c50NormSwap prints n with local variables alpha-renamed in order of first
// occurrence; if mirror is set, left/right names are exchanged (plus extra),
// comparison operators against constants are flipped and the constants negated.
func c50NormSwap(n ast.Node, info *types.Info, mirror bool, extra map[string]string) string {
	locals := map[types.Object]string{}
	var render func(ast.Node) string
	name := func(id *ast.Ident) string {
		obj := info.ObjectOf(id)
		if v, ok := obj.(*types.Var); ok && !v.IsField() && v.Parent() != nil && v.Parent() != v.Pkg().Scope() {
			// parameters and receiver keep their names; other locals are numbered
			if _, isParam := c50ParamNames[id.Name]; !isParam {
				if mirror {
					if s, ok := extra[id.Name]; ok {
						return s
					}
				}
				if _, ok := extra[id.Name]; ok || c50IsExtraTarget(extra, id.Name) {
					return id.Name
				}
				if _, seen := locals[obj]; !seen {
					locals[obj] = fmt.Sprintf("v%d", len(locals)+1)
				}
				return locals[obj]
			}
		}
		if mirror {
			if s, ok := c50Swap[id.Name]; ok {
				return s
			}
			if s, ok := extra[id.Name]; ok {
				return s
			}
		}
		return id.Name
	}
	render = func(n ast.Node) string {
		var buf bytes.Buffer
		fset := token.NewFileSet()
		// copy with renamed identifiers by walking and substituting text
		cp := c50Rewrite(n, info, mirror, name)
		printer.Fprint(&buf, fset, cp)
		return buf.String()
	}
	out := render(n)
	// strip comments/blank lines
	var lines []string
	for _, l := range strings.Split(out, "\n") {
		t := strings.TrimSpace(l)
		if t == "" || strings.HasPrefix(t, "//") {
			continue
		}
		lines = append(lines, t)
	}
	return strings.Join(lines, "\n")
}

var c50ParamNames = map[string]bool{"node": true, "start": true, "end": true, "ascending": true, "leavesOnly": true, "cb": true, "key": true}

func c50IsExtraTarget(extra map[string]string, n string) bool {
	for _, v := range extra {
		if v == n {
			return true
		}
	}
	return false
}

// c50Rewrite deep-copies the subtree replacing identifiers via name() and, when
// mirroring, flipping `x op const` comparisons (op flipped, const negated).
func c50Rewrite(n ast.Node, info *types.Info, mirror bool, name func(*ast.Ident) string) ast.Node {
	var ex func(e ast.Expr) ast.Expr
	var st func(s ast.Stmt) ast.Stmt
	exs := func(l []ast.Expr) []ast.Expr {
		var o []ast.Expr
		for _, e := range l {
			o = append(o, ex(e))
		}
		return o
	}
	block := func(b *ast.BlockStmt) *ast.BlockStmt {
		if b == nil {
			return nil
		}
		nb := &ast.BlockStmt{}
		for _, s := range b.List {
			nb.List = append(nb.List, st(s))
		}
		return nb
	}
	ex = func(e ast.Expr) ast.Expr {
		switch x := e.(type) {
		case nil:
			return nil
		case *ast.Ident:
			return ast.NewIdent(name(x))
		case *ast.ParenExpr:
			return &ast.ParenExpr{X: ex(x.X)}
		case *ast.SelectorExpr:
			return &ast.SelectorExpr{X: ex(x.X), Sel: ast.NewIdent(name(x.Sel))}
		case *ast.CallExpr:
			return &ast.CallExpr{Fun: ex(x.Fun), Args: exs(x.Args)}
		case *ast.UnaryExpr:
			return &ast.UnaryExpr{Op: x.Op, X: ex(x.X)}
		case *ast.StarExpr:
			return &ast.StarExpr{X: ex(x.X)}
		case *ast.IndexExpr:
			return &ast.IndexExpr{X: ex(x.X), Index: ex(x.Index)}
		case *ast.SliceExpr:
			return &ast.SliceExpr{X: ex(x.X), Low: ex(x.Low), High: ex(x.High), Max: ex(x.Max), Slice3: x.Slice3}
		case *ast.BasicLit:
			return &ast.BasicLit{Kind: x.Kind, Value: x.Value}
		case *ast.BinaryExpr:
			if mirror {
				if k, ok := cjConstOf(info, x.Y); ok {
					switch x.Op {
					case token.LSS, token.LEQ, token.GTR, token.GEQ:
						return &ast.BinaryExpr{X: ex(x.X), Op: engine.Flip(x.Op), Y: &ast.BasicLit{Kind: token.INT, Value: fmt.Sprint(-k)}}
					}
				}
			}
			if k, ok := cjConstOf(info, x.Y); ok {
				return &ast.BinaryExpr{X: ex(x.X), Op: x.Op, Y: &ast.BasicLit{Kind: token.INT, Value: fmt.Sprint(k)}}
			}
			return &ast.BinaryExpr{X: ex(x.X), Op: x.Op, Y: ex(x.Y)}
		}
		return &ast.BasicLit{Kind: token.STRING, Value: "<" + engine.ExprString(e) + ">"}
	}
	st = func(s ast.Stmt) ast.Stmt {
		switch x := s.(type) {
		case nil:
			return nil
		case *ast.BlockStmt:
			return block(x)
		case *ast.AssignStmt:
			return &ast.AssignStmt{Lhs: exs(x.Lhs), Tok: x.Tok, Rhs: exs(x.Rhs)}
		case *ast.ExprStmt:
			return &ast.ExprStmt{X: ex(x.X)}
		case *ast.ReturnStmt:
			return &ast.ReturnStmt{Results: exs(x.Results)}
		case *ast.IfStmt:
			return &ast.IfStmt{Init: st(x.Init), Cond: ex(x.Cond), Body: block(x.Body), Else: st(x.Else)}
		}
		return &ast.ExprStmt{X: &ast.BasicLit{Kind: token.STRING, Value: fmt.Sprintf("<%T>", s)}}
	}
	switch x := n.(type) {
	case ast.Stmt:
		return st(x)
	case ast.Expr:
		return ex(x)
	}
	return n
}

func c50Diff(a, b string) string {
	if a == b {
		return "identical after mirroring"
	}
	la, lb := strings.Split(a, "\n"), strings.Split(b, "\n")
	for i := 0; i < len(la) && i < len(lb); i++ {
		if la[i] != lb[i] {
			return "first difference: mirror gives `" + la[i] + "`, code has `" + lb[i] + "`"
		}
	}
	return fmt.Sprintf("different lengths: %d vs %d statements", len(la), len(lb))
}

type c50Case struct {
	cond ast.Expr
	body ast.Stmt
}

// c50HeavyCases extracts the (condition, body) pairs of balance(): top-level if
// statements, an if / else-if chain, or the case clauses of a tagless switch.
func c50HeavyCases(f *engine.Fn) []c50Case {
	var out []c50Case
	var fromIf func(is *ast.IfStmt)
	fromIf = func(is *ast.IfStmt) {
		next, chained := is.Else.(*ast.IfStmt)
		if chained {
			out = append(out, c50Case{is.Cond, is.Body})
			fromIf(next)
			return
		}
		if is.Else != nil {
			if blk, ok := is.Else.(*ast.BlockStmt); ok && len(out) > 0 {
				_ = blk // trailing else of a chain = the balanced case
				out = append(out, c50Case{is.Cond, is.Body})
				return
			}
		}
		// plain if (its else, if any, belongs to the case body)
		out = append(out, c50Case{is.Cond, &ast.IfStmt{Cond: ast.NewIdent("_"), Body: is.Body, Else: is.Else}})
	}
	for _, st := range f.Body.List {
		switch x := st.(type) {
		case *ast.IfStmt:
			fromIf(x)
		case *ast.SwitchStmt:
			if x.Tag != nil {
				continue
			}
			for _, cl := range x.Body.List {
				cc := cl.(*ast.CaseClause)
				if len(cc.List) == 1 {
					out = append(out, c50Case{cc.List[0], &ast.BlockStmt{List: cc.Body}})
				}
			}
		}
	}
	// normalise plain-if bodies that have no else to their block
	for i, cs := range out {
		if is, ok := cs.body.(*ast.IfStmt); ok && is.Else == nil {
			out[i].body = is.Body
		}
	}
	return out
}

// c50OnBase: the deep call is made on `base` in f, and inside helpers on the helper's own receiver.
func c50OnBase(f *engine.Fn, d engine.DeepSite, base types.Object) bool {
	sel, ok := d.Outer.Call.Fun.(*ast.SelectorExpr)
	if !ok || engine.ObjOf(f.Info(), sel.X) != base {
		return false
	}
	if d.Inner != d.Outer {
		e, in := cjChainArg(f, d, d.Inner.Call.Fun.(*ast.SelectorExpr).X)
		return in == f && engine.ObjOf(f.Info(), e) == base
	}
	return true
}

// c50BalanceResult: call is base.balance(), or base.h() for a Node method h all of whose returns are
// (recursively) balance results on h's receiver, preceded there by nothing that could skip balance.
func c50BalanceResult(f *engine.Fn, call *ast.CallExpr, base types.Object, depth int) bool {
	s := f.SiteOf(call)
	sel, ok := call.Fun.(*ast.SelectorExpr)
	if s == nil || !ok || engine.ObjOf(f.Info(), sel.X) != base {
		return false
	}
	if s.CalleeName() == c50Pkg+".(*Node).balance" {
		return true
	}
	o, _ := s.Callee.(*types.Func)
	h := f.Prog.FnOf(o)
	if h == nil || depth <= 0 || cjRecv(h) == nil {
		return false
	}
	rets := cjReturns(h)
	if len(rets) == 0 {
		return false
	}
	for _, r := range rets {
		if len(r.Results) != 1 {
			return false
		}
		c2, ok := ast.Unparen(r.Results[0]).(*ast.CallExpr)
		if !ok || !c50BalanceResult(h, c2, cjRecv(h), depth-1) {
			return false
		}
	}
	return true
}

// c50IsUpdatedFlag: obj is the "an existing key was replaced" flag of Set: its second
// (named) result, or a variable assigned from the second result of the recursive Set call.
func c50IsUpdatedFlag(f *engine.Fn, obj types.Object) bool {
	if obj == nil {
		return false
	}
	k := 0
	if f.Type.Results != nil {
		for _, fld := range f.Type.Results.List {
			for _, nm := range fld.Names {
				if k == 1 && f.Info().ObjectOf(nm) == obj {
					return true
				}
				k++
			}
		}
	}
	for _, s := range f.CallsTo(f.Name) {
		if objs := cjAssignedFrom(f, s); len(objs) == 2 && objs[1] == obj {
			return true
		}
	}
	return false
}
