package checks

import (
	"go/ast"
	"go/token"
	"go/types"

	"gnoverif/engine"
)

// C19 — overflow-checked integer arithmetic (thin claim).
func init() {
	register("C19", c19)
	meta("C19", Meta{
		Text:      "Thin structural claim on tm2/pkg/overflow: (1) each panicking variant Xp calls exactly the matching checked helper X on its two parameters in a behaviour-equivalent order, panics exactly on the branch where the helper's ok result is false and returns the helper's first result otherwise; (2) every native / and % of the package is gated by a test that its divisor parameter is non-zero; (3) each helper computes its result with the operator its name says, on (a, b) in order, and returns that value on every non-constant return; constant returns are 0,true under an `operand == 0` gate (Mul) or have ok=false. Level 'other'.",
		Note:      "Not covered (not decidable by this technique): that the ok formula of Add/Sub/Mul/Div is exact for every operand pair — that is a theorem of modular arithmetic; evaluating the formula on an 8-bit instantiation would be execution, not analysis. Call sites of the helpers elsewhere in the repository are not examined.",
		Technique: "go/cfg gate analysis (result of the helper gates panic and return with opposite polarity), AST operator/operand matching, divisor-guard dominance",
		Ref:       "DESIGN.md §2 C19",
	})
	const F = "tm2/pkg/overflow/overflow.go"
	mutants("C19",
		Mutant{"divp-polarity", F, "r, ok := Div(a, b)\n\tif !ok {", "r, ok := Div(a, b)\n\tif ok {", "wrapper-panics-on-notok tm2/pkg/overflow.Divp"},
		Mutant{"subp-calls-add", F, "r, ok := Sub(a, b)", "r, ok := Add(a, b)", "wrapper-helper tm2/pkg/overflow.Subp"},
		Mutant{"subp-swapped", F, "r, ok := Sub(a, b)", "r, ok := Sub(b, a)", "wrapper-helper tm2/pkg/overflow.Subp"},
		Mutant{"mul-zero-guard-weakened", F, "if a == 0 || b == 0 {", "if a == 0 {", "divisor-guard tm2/pkg/overflow.Mul"},
		Mutant{"div-zero-guard-weakened", F, "if b == 0 {", "if b == 0 && a == 0 {", "divisor-guard tm2/pkg/overflow.Div"},
		Mutant{"sub-operands-swapped", F, "c := a - b", "c := b - a", "helper-operator tm2/pkg/overflow.Sub"},
		Mutant{"mulp-returns-operand", F, "panic(\"multiplication overflow\")\n\t}\n\treturn r", "panic(\"multiplication overflow\")\n\t}\n\t_ = r\n\treturn a", "wrapper-returns-result tm2/pkg/overflow.Mulp"},
		Mutant{"addp-panic-dropped", F, "if !ok {\n\t\tpanic(\"addition overflow\")\n\t}", "if !ok {\n\t\tr = 0\n\t}", "wrapper-panics-on-notok tm2/pkg/overflow.Addp"},
	)
}

func c19(c *engine.Ctx) {
	c.Explain = "Decides on tm2/pkg/overflow: each Xp wrapper calls the matching helper X(a, b) (operand order preserved for Sub/Div), panics exactly on the !ok branch and returns the helper's result on the ok branch; every native / or % is gated by a non-zero test of its divisor parameter; each helper's result variable is defined as `a OP b` with the operator of its name and is what non-constant returns yield. Not covered: exactness of the ok formulas (modular-arithmetic theorem), users of the package."
	p := c.Load("tm2/pkg/overflow")
	if p == nil {
		return
	}
	const P = "tm2/pkg/overflow."
	type pair struct {
		name string
		op   token.Token
		comm bool
	}
	pairs := []pair{{"Add", token.ADD, true}, {"Sub", token.SUB, false}, {"Mul", token.MUL, true}, {"Div", token.QUO, false}}

	nw := 0
	for _, pr := range pairs {
		f := c.MustFunc(P + pr.name + "p")
		if f == nil {
			continue
		}
		nw++
		info := f.Info()
		g := f.Graph()
		a, b := paramObj(f, 0), paramObj(f, 1)
		// (1a) exactly one call of the matching helper, on (a, b); other calls only
		// build the panic value or are the package-local finisher that receives (r, ok)
		var helper *engine.Site
		nHelper := 0
		for _, s := range f.Calls() {
			if s.CalleeName() == P+pr.name {
				helper = s
				nHelper++
			}
		}
		okHelper, why := false, "no call to "+P+pr.name
		var lhs []types.Object
		if helper != nil {
			lhs = authdLhsObjs(f, helper)
		}
		// the finisher: return h(..., r, ..., ok, ...)
		var fin *engine.Fn
		var finRes, finOk types.Object
		if helper != nil && len(lhs) == 2 && lhs[0] != nil && lhs[1] != nil {
			for _, s := range f.Calls() {
				fn, _ := s.Callee.(*types.Func)
				h := p.FnOf(fn)
				if h == nil || s == helper || h == f {
					continue
				}
				hops := authdOperands(h)
				var pr0, po types.Object
				for i, a := range s.Call.Args {
					if i >= len(hops) {
						break
					}
					switch engine.ObjOf(info, a) {
					case lhs[0]:
						pr0 = hops[i]
					case lhs[1]:
						po = hops[i]
					}
				}
				if pr0 != nil && po != nil {
					if _, inRet := s.Top.(*ast.ReturnStmt); inRet && g.Dominates(helper, s) {
						fin, finRes, finOk = h, pr0, po
					}
				}
			}
		}
		if helper != nil {
			okHelper, why = true, "calls "+pr.name+"(a, b)"
			others := 0
			for _, s := range f.Calls() {
				n := s.CalleeName()
				if s == helper || n == "builtin.panic" {
					continue
				}
				if fn, _ := s.Callee.(*types.Func); fin != nil && p.FnOf(fn) == fin {
					continue
				}
				inPanic := false
				for _, ps := range f.CallsTo("builtin.panic") {
					if containsExpr(ps.Call, s.Call) {
						inPanic = true
					}
				}
				if !inPanic {
					others++
				}
			}
			if nHelper != 1 {
				okHelper, why = false, "the matching helper is called more than once"
			} else if others > 0 {
				okHelper, why = false, "calls other functions besides the matching helper and panic"
			} else if len(helper.Call.Args) != 2 || a == nil || b == nil {
				okHelper, why = false, "helper is not called on the two parameters"
			} else {
				x, y := engine.ObjOf(info, helper.Call.Args[0]), engine.ObjOf(info, helper.Call.Args[1])
				switch {
				case x == a && y == b:
				case x == b && y == a && pr.comm:
				default:
					okHelper, why = false, "helper operands are not (a, b) in a behaviour-equivalent order"
				}
			}
		}
		c.Check("wrapper-helper", f.Name, f.Pos(), okHelper, why)
		if helper == nil {
			continue
		}
		if len(lhs) != 2 || lhs[0] == nil || lhs[1] == nil {
			c.Undecided("wrapper-panics-on-notok", f.Name, "helper results are not bound as `r, ok := X(a, b)`")
			continue
		}
		// the body in which panic/return are decided: f itself, or the finisher with (r, ok) as parameters
		body, res, okv := f, lhs[0], lhs[1]
		wantDefs := 1
		if fin != nil {
			body, res, okv, wantDefs = fin, finRes, finOk, 0
			// f must return the finisher's value directly
			for _, rs := range authdReturns(f) {
				ok1 := false
				if len(rs.Results) == 1 {
					if call, isCall := ast.Unparen(rs.Results[0]).(*ast.CallExpr); isCall {
						if st := f.SiteOf(call); st != nil {
							if fn, _ := st.Callee.(*types.Func); p.FnOf(fn) == fin {
								ok1 = true
							}
						}
					}
				}
				if !ok1 {
					body = nil
				}
			}
		}
		if body == nil {
			c.Check("wrapper-returns-result", f.Name, f.Pos(), false, "a return does not yield the helper's first result")
			continue
		}
		bi := body.Info()
		bg := body.Graph()
		okFact := func(st *engine.Site) (known bool, val bool) {
			for _, gt := range bg.Gates(st) {
				for _, fc := range authdFacts(gt) {
					if id, isID := ast.Unparen(fc.E).(*ast.Ident); isID && bi.ObjectOf(id) == okv {
						return true, !fc.Neg
					}
				}
			}
			return false, false
		}
		// (1b) panic exactly on !ok
		panics := body.CallsTo("builtin.panic")
		good, why := len(panics) > 0, "no panic call: the wrapper cannot report failure"
		for _, ps := range panics {
			known, val := okFact(ps)
			if !known || val {
				good, why = false, "panic is not reached exactly on !ok (the helper's ok result does not gate it with the right polarity)"
				break
			}
			why = "panic gated by !ok"
		}
		if len(authdAssignsTo(body, okv)) != wantDefs {
			good, why = false, "the ok result is reassigned"
		}
		c.Check("wrapper-panics-on-notok", f.Name, f.Pos(), good, why)
		// (1c) returns the helper's result on the ok branch
		rets := authdReturns(body)
		good, why = len(rets) > 0, "no return"
		for _, rs := range rets {
			if len(rs.Results) != 1 || engine.ObjOf(bi, rs.Results[0]) != res {
				good, why = false, "a return does not yield the helper's first result"
				break
			}
			st := body.SiteOf(rs)
			if st == nil {
				good, why = false, "return not located in the CFG"
				break
			}
			known, val := okFact(st)
			if !known || !val {
				good, why = false, "return is not restricted to the ok branch"
				break
			}
			why = "returns the helper's result only when ok"
		}
		if len(authdAssignsTo(body, res)) != wantDefs {
			good, why = false, "the result variable is reassigned before being returned"
		}
		c.Check("wrapper-returns-result", f.Name, f.Pos(), good, why)
	}
	c.Floor("wrapper-helper", nw, 4)

	// (2) divisor guards: every / and % in the package
	nd := 0
	for _, f := range p.FuncsIn("tm2/pkg/overflow") {
		info := f.Info()
		g := f.Graph()
		engine.InspectBody(f, func(n ast.Node) {
			var div ast.Expr
			switch x := n.(type) {
			case *ast.BinaryExpr:
				if x.Op == token.QUO || x.Op == token.REM {
					div = x.Y
				}
			case *ast.AssignStmt:
				if x.Tok == token.QUO_ASSIGN || x.Tok == token.REM_ASSIGN {
					div = x.Rhs[0]
				}
			}
			if div == nil {
				return
			}
			if ex, isExpr := n.(ast.Expr); isExpr {
				if tv, ok := info.Types[ex]; ok && tv.Value != nil {
					return // constant-folded
				}
			}
			nd++
			key := f.Name + " divisor " + engine.ExprString(div)
			dobj := engine.ObjOf(info, div)
			st := f.SiteOf(n)
			if dobj == nil || st == nil {
				c.Check("divisor-guard", key, n.Pos(), false, "divisor is not a plain variable / site not in CFG")
				return
			}
			if len(authdAssignsTo(f, dobj)) != 0 {
				c.Check("divisor-guard", key, n.Pos(), false, "divisor variable is reassigned")
				return
			}
			ok := false
			for _, gt := range g.Gates(st) {
				for _, fc := range authdFacts(gt) {
					x, op, y, isCmp := authdCmp(fc)
					if !isCmp || op != token.NEQ {
						continue
					}
					if v, isC := authdConstInt(info, y); isC && v == 0 && engine.ObjOf(info, x) == dobj {
						ok = true
					}
					if v, isC := authdConstInt(info, x); isC && v == 0 && engine.ObjOf(info, y) == dobj {
						ok = true
					}
				}
			}
			c.Check("divisor-guard", key, n.Pos(), ok, "a dominating test must establish "+engine.ExprString(div)+" != 0 before the division")
		})
	}
	c.Floor("divisor-guard", nd, 2)

	// (3) operator matches name, result variable returned
	nh := 0
	for _, pr := range pairs {
		f := c.MustFunc(P + pr.name)
		if f == nil {
			continue
		}
		nh++
		info := f.Info()
		g := f.Graph()
		a, b := paramObj(f, 0), paramObj(f, 1)
		good, why := true, ""
		nvar := 0
		for _, rs := range authdReturns(f) {
			if len(rs.Results) != 2 {
				good, why = false, "return without (value, ok)"
				break
			}
			if bv, isLit := authdIsBoolLit(info, rs.Results[1]); isLit && !bv {
				continue // failure: value irrelevant
			}
			if v, isC := authdConstInt(info, rs.Results[0]); isC {
				// constant success: must be `0, true` under an operand==0 gate, Mul only
				if bv, isLit := authdIsBoolLit(info, rs.Results[1]); !isLit || !bv {
					isC = false
				}
				st := f.SiteOf(rs)
				zeroGate := false
				if st != nil {
					for _, gt := range g.Gates(st) {
						if !gt.OnTrue {
							continue
						}
						all := true
						for _, d := range engine.Conjuncts(gt.Full(), token.LOR) {
							x, op, y, isCmp := authdCmp(authdFact{E: d})
							if !isCmp || op != token.EQL {
								all = false
								break
							}
							o := engine.ObjOf(info, x)
							z, isZ := authdConstInt(info, y)
							if !(isZ && z == 0 && (o == a || o == b)) {
								all = false
							}
						}
						if all {
							zeroGate = true
						}
					}
				}
				if !(isC && v == 0 && zeroGate && pr.op == token.MUL) {
					good, why = false, "constant successful return is not `0, true` under an `operand == 0` gate of Mul"
				}
				continue
			}
			// variable return
			nvar++
			ro := engine.ObjOf(info, rs.Results[0])
			defs := authdAssignsTo(f, ro)
			if ro == nil || len(defs) != 1 || defs[0] == nil {
				good, why = false, "returned value is not a singly-defined variable"
				break
			}
			be, isB := ast.Unparen(defs[0]).(*ast.BinaryExpr)
			if !isB || be.Op != pr.op {
				good, why = false, "result is not computed with operator "+pr.op.String()
				break
			}
			x, y := engine.ObjOf(info, be.X), engine.ObjOf(info, be.Y)
			if !((x == a && y == b) || (pr.comm && x == b && y == a)) || a == nil || b == nil {
				good, why = false, "result is not `a " + pr.op.String() + " b` on the parameters in order"
				break
			}
			why = "returns c := a " + pr.op.String() + " b"
		}
		if good && nvar == 0 {
			good, why = false, "no return yields the computed result"
		}
		for _, o := range []types.Object{a, b} {
			if o != nil && len(authdAssignsTo(f, o)) != 0 {
				good, why = false, "an operand parameter is reassigned"
			}
		}
		c.Check("helper-operator", f.Name, f.Pos(), good, why)
	}
	c.Floor("helper-operator", nh, 4)
}

func authdBoolStr(b bool) string {
	if b {
		return "true"
	}
	return "false"
}
