package checks

import (
	"go/ast"
	"go/token"
	"go/types"
	"strings"

	"gnoverif/engine"
)

// C14 — coin supply is conserved and balance records stay well-formed.
func init() {
	register("C14", c14)
	meta("C14", Meta{
		Text:      "Decides the structural clauses behind supply conservation: the supply record is written only by setSupply (callers: MintCoins, BurnCoins) and RecomputeSupply (genesis only, after every applyBalance loop); Mint/Burn run validateIssuance and nextSupply(amt, +1/−1) before the checked credit/debit of that same amt, write the supply from nextSupply's result for every coin, and have no failing exit between the balance write and the supply write; nextSupply stores only overflow-checked, non-negative sums of TotalSupply and ±amount; every other caller of AddCoins is paired in the same function with a checked, preceding debit of the SAME coins value (sendCoins, SendCoinsUnrestricted) or sits behind ValidateInputsOutputs' totalIn==totalOut test; split-tier balances are written only through setSplitBalance (zero ⇒ delete, else encodeBalance which refuses ≤0) by subtract/AddCoins/SetCoins, with amounts that are the checked difference/overflow-checked sum of the balance read for the same address and denom; tiers are routed by splitByTier on inAccountTier; raw int64 arithmetic in the bank keeper is confined to a guarded, frozen list; account objects are stored under acc.GetAddress() and a threaded account must match the address; Account.SetCoins and the account/supply/balance store writers are frozen tables.",
		Note:      "Not covered: the runtime verdict of the invariant functions, std.Coins arithmetic (C18), vesting schedules, that genesis balance files are well-formed. contribs/misc modules are not loaded.",
		Technique: "who-may-call / who-may-write tables closed over interfaces, same-value pairing of debit and credit (resolved objects), R-NOAFTER on Mint/Burn, gate analysis for arithmetic guards, R-ARITH site table",
		Ref:       "DESIGN.md §2 C14",
	})
	mutants("C14",
		Mutant{"transfer-credits-more", "tm2/pkg/sdk/bank/keeper.go", "\tif err := bank.AddCoins(ctx, toAddr, amt); err != nil {\n\t\treturn err\n\t}\n\n\t/*", "\tif err := bank.AddCoins(ctx, toAddr, amt.Add(amt)); err != nil {\n\t\treturn err\n\t}\n\n\t/*", "transfer-pairing"},
		Mutant{"unrestricted-debit-unchecked", "tm2/pkg/sdk/bank/keeper.go", "\tif err := bank.subtractCoinsUnrestricted(ctx, fromAddr, amt); err != nil {\n\t\treturn err\n\t}", "\tif err := bank.subtractCoinsUnrestricted(ctx, fromAddr, amt); err != nil && !amt.IsZero() {\n\t\treturn err\n\t}", "transfer-pairing"},
		Mutant{"mint-skips-supply", "tm2/pkg/sdk/bank/supply.go", "\tif err := bank.AddCoins(ctx, addr, amt); err != nil {\n\t\treturn err\n\t}\n\tfor _, coin := range next {", "\tif err := bank.AddCoins(ctx, addr, amt); err != nil {\n\t\treturn err\n\t}\n\tfor _, coin := range next[:0] {", "issuance"},
		Mutant{"burn-raises-supply", "tm2/pkg/sdk/bank/supply.go", "next, err := bank.nextSupply(ctx, amt, -1)", "next, err := bank.nextSupply(ctx, amt, 1)", "issuance"},
		Mutant{"supply-overflow-unchecked", "tm2/pkg/sdk/bank/supply.go", "\t\tif !ok || sum < 0 {", "\t\tif !ok && sum < 0 {", "supply-arith"},
		Mutant{"helper-adds-coins", "tm2/pkg/sdk/bank/keeper.go", "// canSendCoins returns true if", "func (bank BankKeeper) Reward(ctx sdk.Context, addr crypto.Address, amt std.Coins) error {\n\treturn bank.AddCoins(ctx, addr, amt)\n}\n\n// canSendCoins returns true if", "who-may-call"},
		Mutant{"debit-without-balance-check", "tm2/pkg/sdk/bank/keeper.go", "\t\tif old < coin.Amount {\n\t\t\treturn std.ErrInsufficientCoins(fmt.Sprintf(\n\t\t\t\t\"insufficient account funds; %d%s < %s\", old, coin.Denom, coin))", "\t\tif old < coin.Amount && old > 0 {\n\t\t\treturn std.ErrInsufficientCoins(fmt.Sprintf(\n\t\t\t\t\"insufficient account funds; %d%s < %s\", old, coin.Denom, coin))", "balance-arith"},
		Mutant{"credit-overflow-unchecked", "tm2/pkg/sdk/bank/keeper.go", "\t\tsum, ok := overflow.Add(old, coin.Amount)\n\t\tif !ok {", "\t\tsum, ok := overflow.Add(old, coin.Amount)\n\t\tif !ok && old < 0 {", "balance-arith"},
		Mutant{"tier-swapped", "tm2/pkg/sdk/bank/keeper.go", "\t\tif view.inAccountTier(coin.Denom) {\n\t\t\taccount = append(account, coin)", "\t\tif !view.inAccountTier(coin.Denom) {\n\t\t\taccount = append(account, coin)", "tier-routing"},
		Mutant{"zero-balance-stored", "tm2/pkg/sdk/bank/balance.go", "\tif amount <= 0 {\n\t\t// Callers must delete instead", "\tif amount < 0 {\n\t\t// Callers must delete instead", "positive-balance"},
		Mutant{"account-key-from-arg", "tm2/pkg/sdk/bank/keeper.go", "\tif acc != nil && acc.GetAddress() != addr {", "\tif acc != nil && acc.GetAddress() != addr && upgraded {", "account-address"},
		Mutant{"genesis-no-seed", "gno.land/pkg/gnoland/app.go", "\t\tcfg.applyBalance(ctx, bal)\n\t}\n\tcfg.seedSupply(ctx)\n\t// The account keeper's initial genesis state", "\t\tcfg.applyBalance(ctx, bal)\n\t}\n\t// The account keeper's initial genesis state", "genesis-seed"},
		Mutant{"raw-arith-added", "tm2/pkg/sdk/bank/supply.go", "\t\tsum, ok := overflow.Add(old, sign*coin.Amount)", "\t\tsum, ok := old+sign*coin.Amount, true", "balance-arith"},
	)
}

func c14(c *engine.Ctx) {
	c.Explain = "Decides structural necessary conditions of supply conservation and record well-formedness in the bank keeper (see manifest text): writer tables for supply/balance/account records, Mint/Burn ordering and value flow, same-value debit/credit pairing of every transfer, guarded arithmetic, tier routing, positive-only encoding, account-address consistency, genesis seeding. Not covered: the invariant functions' runtime verdict, std.Coins arithmetic."
	pats := []string{c08Bank, "tm2/pkg/sdk/auth", "tm2/pkg/std", c08VM, "gno.land/pkg/gnoland"}
	if c.Tier == "thorough" {
		pats = []string{"gnovm/...", "tm2/...", "gno.land/..."}
	}
	p := c.Load(pats...)
	if p == nil {
		return
	}
	bk := p.Named(c08Bank + ".BankKeeper")
	if bk == nil {
		c.Undecided("anchor", c08Bank+".BankKeeper", "type not found")
		return
	}
	B := c08Bank + ".(BankKeeper)."
	W := c08Bank + ".(ViewKeeper)."

	// ---- tables
	tbl := []struct {
		m     string
		allow []string
	}{
		{"setSupply", []string{B + "MintCoins", B + "BurnCoins"}},
		{"nextSupply", []string{B + "MintCoins", B + "BurnCoins"}},
		{"RecomputeSupply", []string{"gno.land/pkg/gnoland.(InitChainerConfig).seedSupply"}},
		{"AddCoins", []string{B + "InputOutputCoins", B + "SendCoinsUnrestricted", B + "sendCoins", B + "SendCoins" /* when sendCoins is inlined */, B + "MintCoins"}},
		{"SubtractCoins", []string{B + "InputOutputCoins", B + "sendCoins", B + "SendCoins", B + "BurnCoins"}},
		{"subtractCoinsUnrestricted", []string{B + "SendCoinsUnrestricted"}},
		{"subtract", []string{B + "SubtractCoins", B + "subtractCoinsUnrestricted"}},
		{"setSplitBalance", []string{B + "subtract", B + "AddCoins", B + "SetCoins"}},
		{"setAccountTierCoins", []string{B + "subtract", B + "SetCoins"}},
		{"SetCoins", []string{"gno.land/pkg/gnoland.(InitChainerConfig).applyBalance"}},
		{"ensureAccount", []string{B + "AddCoins", B + "setAccountTierCoins"}},
	}
	for _, t := range tbl {
		refs := kcFilterRefs(p, kcMethodRefs(p, bk, t.m))
		kcCallerTable(c, p, "who-may-call", B+t.m, refs, t.allow, t.allow)
	}
	kcCallerTable(c, p, "who-may-call", c08Bank+".SupplyKey", kcFilterRefs(p, p.RefsToFunc(c08Bank+".SupplyKey")),
		[]string{W + "TotalSupply", B + "setSupply", B + "RecomputeSupply"}, []string{B + "setSupply"})
	kcCallerTable(c, p, "who-may-call", c08Bank+".BalanceKey", kcFilterRefs(p, p.RefsToFunc(c08Bank+".BalanceKey")),
		[]string{W + "getSplitBalance", B + "setSplitBalance", c08Bank + ".AccountTierInvariant"}, []string{B + "setSplitBalance"})
	kcCallerTable(c, p, "who-may-call", c08Bank+".encodeBalance", kcFilterRefs(p, p.RefsToFunc(c08Bank+".encodeBalance")),
		[]string{B + "setSplitBalance", B + "setSupply", B + "RecomputeSupply"}, []string{B + "setSplitBalance", B + "setSupply"})
	// store writes inside the bank package
	var storeW []engine.Ref
	for _, r := range p.RefsTo(func(o types.Object) bool {
		fn, ok := o.(*types.Func)
		if !ok || (fn.Name() != "Set" && fn.Name() != "Delete") {
			return false
		}
		return strings.Contains(engine.FuncName(fn), "tm2/pkg/store") && strings.Contains(engine.FuncName(fn), "(Store).")
	}) {
		if r.Fn != nil && r.Fn.Pkg.PkgPath == engine.ModPrefix+c08Bank && !kcInTestSupport(p, r.Fn) {
			storeW = append(storeW, r)
		}
	}
	kcCallerTable(c, p, "who-may-call", "store writes inside "+c08Bank, storeW,
		[]string{B + "setSplitBalance", B + "setSupply", B + "RecomputeSupply"}, []string{B + "setSplitBalance", B + "setSupply"})
	// Account.SetCoins (interface + concrete): who replaces the coins held in an account object
	setCoins := kcFilterRefs(p, p.RefsTo(func(o types.Object) bool {
		fn, ok := o.(*types.Func)
		if !ok || fn.Name() != "SetCoins" {
			return false
		}
		n := engine.FuncName(fn)
		return strings.HasPrefix(n, "tm2/pkg/std.(") || strings.HasPrefix(n, "gno.land/pkg/gnoland.(")
	}))
	kcCallerTable(c, p, "who-may-call", "std.Account.SetCoins", setCoins, []string{B + "setAccountTierCoins", B + "AddCoins"}, []string{B + "setAccountTierCoins", B + "AddCoins"})
	// RemoveAccount would strand supply
	kcCallerTable(c, p, "who-may-call", "auth.(AccountKeeper).RemoveAccount",
		kcFilterRefs(p, p.RefsToFunc("tm2/pkg/sdk/auth.(AccountKeeper).RemoveAccount", "tm2/pkg/sdk/auth.(AccountKeeperI).RemoveAccount", "tm2/pkg/sdk/bank.(AccountKeeperI).RemoveAccount")), nil, nil)

	c14issuance(c, p)
	c14pairing(c, p)
	c14balances(c, p)
	c14arith(c, p)
	c14accounts(c, p)
	c14genesis(c, p)
}

func c14issuance(c *engine.Ctx, p *engine.Prog) {
	B := c08Bank + ".(BankKeeper)."
	for _, sp := range []struct {
		fn, mover string
		sign      string
	}{{"MintCoins", "AddCoins", "1"}, {"BurnCoins", "SubtractCoins", "-1"}} {
		f := c.MustFunc(B + sp.fn)
		if f == nil {
			continue
		}
		info := f.Info()
		g := f.Graph()
		amt, addr := kcParam(f, "amt"), kcParam(f, "addr")
		mv := f.CallsTo(B + sp.mover)
		ns := f.CallsTo(B + "nextSupply")
		vi := f.CallsTo(c08Bank + ".validateIssuance")
		ssd := kcDeepCalls(f, B+"setSupply") // possibly through an extracted helper
		ss := ssd
		wrong := f.DeepCallsTo(2, B+"AddCoins", B+"SubtractCoins", B+"subtractCoinsUnrestricted", B+"subtract")
		c.Floor("issuance "+sp.fn, len(mv)+len(ns)+len(vi)+len(ss), 4)
		if len(mv) != 1 || len(ns) != 1 || len(vi) != 1 || len(ss) != 1 || len(wrong) != 1 {
			kcAt(c, p, "issuance", f.Name+" shape", f.Pos(), false, "expected exactly one validateIssuance, nextSupply, "+sp.mover+" and setSupply call and no other balance mover")
			continue
		}
		m, n, v, sd := mv[0], ns[0], vi[0], ssd[0]
		s := sd.Outer
		// argument identity
		okArgs := amt != nil && engine.ObjOf(info, kcArg(m, 2)) == amt && engine.ObjOf(info, kcArg(n, 1)) == amt && engine.ObjOf(info, kcArg(v, 1)) == amt && engine.ObjOf(info, kcArg(m, 1)) == addr
		if rhs, okd := kcDefs(f, amt); !okd || len(rhs) != 0 {
			okArgs = false
		}
		kcAt(c, p, "issuance", f.Name+" same coins validated, counted and moved", m.Pos(), okArgs, "validateIssuance, nextSupply and "+sp.mover+" must all receive the amt parameter")
		// sign
		sg := strings.ReplaceAll(engine.ExprString(kcArg(n, 2)), " ", "")
		kcAt(c, p, "issuance", f.Name+" supply moves by "+sp.sign, n.Pos(), sg == sp.sign, "nextSupply sign argument is `"+sg+"`")
		// ordering: validate, nextSupply checked before the mover; mover checked before setSupply
		for _, pr := range []struct {
			a, b *engine.Site
			what string
		}{{v, m, "validateIssuance"}, {n, m, "nextSupply"}, {m, s, sp.mover}} {
			r := g.CheckedGuard(pr.a, pr.b)
			kcAt(c, p, "issuance", f.Name+" "+pr.what+" succeeded before "+pr.b.CalleeName()[strings.LastIndexByte(pr.b.CalleeName(), '.')+1:], pr.b.Pos(), r.OK && c09errNilSide(r), r.Why)
		}
		// setSupply iterates nextSupply's result
		okLoop, why := false, "setSupply is not called for every coin of nextSupply's result"
		hf := sd.Inner.Fn
		engine.InspectBody(hf, func(nd ast.Node) {
			rs, isR := nd.(*ast.RangeStmt)
			if !isR || !(rs.Body.Pos() <= sd.Inner.Pos() && sd.Inner.Pos() < rs.Body.End()) || rs.Value == nil {
				return
			}
			rx := ast.Expr(rs.X)
			if hf != f {
				rx = sd.Expr(rs.X) // the helper's parameter in the caller's terms
			}
			xo := engine.ObjOf(info, rx)
			if xo == nil || !kcIsIdent(rx) {
				why = "the range expression is `" + engine.ExprString(rx) + "`, expected the variable holding nextSupply's result"
				return
			}
			d := kcSingleDef(f, xo)
			if d == nil || ast.Unparen(d) != n.Call {
				why = "the slice ranged over is not nextSupply's result"
				return
			}
			// bound as first result
			okFirst := false
			engine.InspectBody(f, func(n2 ast.Node) {
				if as, isAs := n2.(*ast.AssignStmt); isAs && len(as.Rhs) == 1 && ast.Unparen(as.Rhs[0]) == n.Call && len(as.Lhs) == 2 && engine.ObjOf(info, as.Lhs[0]) == xo {
					okFirst = true
				}
			})
			v := engine.ObjOf(hf.Info(), rs.Value)
			if okFirst && kcSelOf(hf.Info(), kcArg(sd.Inner, 1), v, "Denom") && kcSelOf(hf.Info(), kcArg(sd.Inner, 2), v, "Amount") {
				okLoop = true
			} else {
				why = "setSupply arguments are not (coin.Denom, coin.Amount) of the ranged coin"
			}
		})
		kcAt(c, p, "issuance", f.Name+" supply written from nextSupply's result", s.Pos(), okLoop, why)
		// no failing exit after the balance moved
		okNo := true
		for _, ex := range kcNormalExits(f) {
			if !g.ReachableAfter(m, ex) {
				continue
			}
			rs, isRet := ex.Node.(*ast.ReturnStmt)
			if !isRet || len(rs.Results) != 1 {
				okNo = false
				continue
			}
			if isNil(rs.Results[0]) {
				// must come after the supply loop: the loop head dominates it
				continue
			}
			// a non-nil return reachable after the mover: only the mover's own error
			if r := g.CheckedGuard(m, ex); !(r.OK && !c09errNilSide(r)) {
				okNo = false
			}
		}
		kcAt(c, p, "issuance", f.Name+" no failure between balance write and supply write", m.Pos(), okNo, "after "+sp.mover+" succeeded only `return nil` may be reachable")
		// the nil return is after the loop on every path: setSupply's range statement dominates it
		for _, ex := range kcNormalExits(f) {
			rs, isRet := ex.Node.(*ast.ReturnStmt)
			if isRet && len(rs.Results) == 1 && isNil(rs.Results[0]) {
				through := sd.Inner != sd.Outer && g.Dominates(sd.Outer, ex)
				engine.InspectBody(f, func(nd ast.Node) {
					if r, isR := nd.(*ast.RangeStmt); isR && r.Body.Pos() <= s.Pos() && s.Pos() < r.Body.End() {
						if st := f.SiteOf(r.X); st != nil && g.Dominates(st, ex) {
							through = true
						}
					}
				})
				kcAt(c, p, "issuance", f.Name+" success return passes the supply write", ex.Pos(), through, "")
			}
		}
	}

	// nextSupply arithmetic
	if f := c.MustFunc(B + "nextSupply"); f != nil {
		info := f.Info()
		g := f.Graph()
		n := 0
		engine.InspectBody(f, func(nd ast.Node) {
			as, isAs := nd.(*ast.AssignStmt)
			if !isAs || len(as.Lhs) != 1 {
				return
			}
			ix, isIx := ast.Unparen(as.Lhs[0]).(*ast.IndexExpr)
			if !isIx {
				return
			}
			cl, isCL := ast.Unparen(as.Rhs[0]).(*ast.CompositeLit)
			if !isCL {
				return
			}
			_ = ix
			n++
			s := f.SiteOf(as)
			var amtE, denE ast.Expr
			for _, el := range cl.Elts {
				if kv, isKV := el.(*ast.KeyValueExpr); isKV {
					if k, _ := kv.Key.(*ast.Ident); k != nil && k.Name == "Amount" {
						amtE = kv.Value
					} else if k != nil && k.Name == "Denom" {
						denE = kv.Value
					}
				}
			}
			ok, why := false, ""
			so := engine.ObjOf(info, amtE)
			var addCall *ast.CallExpr
			var okObj types.Object
			engine.InspectBody(f, func(n2 ast.Node) {
				a2, isA := n2.(*ast.AssignStmt)
				if isA && len(a2.Lhs) == 2 && len(a2.Rhs) == 1 && engine.ObjOf(info, a2.Lhs[0]) == so && so != nil {
					if call := kcIsCallTo(info, a2.Rhs[0], "tm2/pkg/overflow.Add"); call != nil {
						addCall, okObj = call, engine.ObjOf(info, a2.Lhs[1])
					}
				}
			})
			switch {
			case addCall == nil:
				why = "the stored amount is not the result of overflow.Add"
			default:
				// operands: TotalSupply(ctx, coin.Denom) and sign*coin.Amount
				old := kcResolve(f, addCall.Args[0])
				tc := kcIsCallTo(info, old, c08Bank+".(ViewKeeper).TotalSupply", c08Bank+".(BankKeeper).TotalSupply")
				be, isB := ast.Unparen(addCall.Args[1]).(*ast.BinaryExpr)
				if tc == nil || !isB || be.Op != token.MUL {
					why = "operands are not TotalSupply(ctx, denom) and sign*amount"
					break
				}
				if engine.ExprString(tc.Args[1]) != engine.ExprString(denE) {
					why = "supply read for `" + engine.ExprString(tc.Args[1]) + "` but stored for `" + engine.ExprString(denE) + "`"
					break
				}
				var gotOK, gotNonNeg bool
				for _, ft := range kcFacts(g, s) {
					if id, isID := ft.Expr.(*ast.Ident); isID && ft.Val && info.ObjectOf(id) == okObj {
						gotOK = true
					}
					x, y, op, okc := kcCmp(ft)
					if okc && op == token.GEQ && engine.ObjOf(info, x) == so {
						if lit, isLit := y.(*ast.BasicLit); isLit && lit.Value == "0" {
							gotNonNeg = true
						}
					}
				}
				if !gotOK || !gotNonNeg {
					why = "the store of the new supply is not confined to ok && sum >= 0"
					break
				}
				ok = true
			}
			kcAt(c, p, "supply-arith", f.Name+" new supply", as.Pos(), ok, why)
		})
		c.Floor("supply-arith", n, 1)
	}
}

func c14pairing(c *engine.Ctx, p *engine.Prog) {
	B := c08Bank + ".(BankKeeper)."
	npair := 0
	for _, sp := range []struct{ fn, debit string }{{"sendCoins", "SubtractCoins"}, {"SendCoins", "SubtractCoins"}, {"SendCoinsUnrestricted", "subtractCoinsUnrestricted"}} {
		// the transfer may live in the private helper or be inlined into its exported caller
		f := p.Func(B + sp.fn)
		if f == nil || len(f.CallsTo(B+"AddCoins")) == 0 {
			continue
		}
		npair++
		info := f.Info()
		g := f.Graph()
		amt := kcParam(f, "amt")
		adds := f.CallsTo(B + "AddCoins")
		subs := f.CallsTo(B + sp.debit)
		c.Floor("transfer-pairing "+sp.fn, len(adds), 1)
		for _, a := range adds {
			ok, why := false, "no checked, preceding debit of the same coins"
			if len(subs) == 1 && len(adds) == 1 {
				s := subs[0]
				r := g.CheckedGuard(s, a)
				switch {
				case !(r.OK && c09errNilSide(r)):
					why = "the credit is reachable although the debit failed or was not tested: " + r.Why
				case engine.ObjOf(info, kcArg(s, 2)) != amt || engine.ObjOf(info, kcArg(a, 2)) != amt || amt == nil || !kcIsIdent(kcArg(a, 2)) || !kcIsIdent(kcArg(s, 2)):
					why = "debit moves `" + engine.ExprString(kcArg(s, 2)) + "`, credit moves `" + engine.ExprString(kcArg(a, 2)) + "` (must both be the amt parameter)"
				case len(engine.Atoms(r.Cond)) != 1:
					why = "the debit's error test is combined with another condition: `" + engine.ExprString(r.Cond) + "`"
				default:
					ok = true
				}
				if rhs, okd := kcDefs(f, amt); !okd || len(rhs) != 0 {
					ok, why = false, "amt is reassigned"
				}
			}
			kcAt(c, p, "transfer-pairing", f.Name, a.Pos(), ok, why)
		}
	}
	c.Floor("transfer-pairing functions", npair, 2)
	// InputOutputCoins: behind ValidateInputsOutputs; debit in.Coins of inputs, credit out.Coins of outputs
	if f := c.MustFunc(B + "InputOutputCoins"); f != nil {
		info := f.Info()
		g := f.Graph()
		vs := f.CallsTo(c08Bank + ".ValidateInputsOutputs")
		ins, outs := kcParam(f, "inputs"), kcParam(f, "outputs")
		for _, mv := range append(f.CallsTo(B+"AddCoins"), f.CallsTo(B+"SubtractCoins")...) {
			ok, why := false, "not dominated by a checked ValidateInputsOutputs(inputs, outputs)"
			for _, v := range vs {
				if r := g.CheckedGuard(v, mv); r.OK && c09errNilSide(r) && engine.ObjOf(info, kcArg(v, 0)) == ins && engine.ObjOf(info, kcArg(v, 1)) == outs {
					ok = true
				}
			}
			// ranged element
			if ok {
				ok = false
				why = "the coins moved are not <elem>.Coins at <elem>.Address of the validated slice"
				want := ins
				if strings.HasSuffix(mv.CalleeName(), "AddCoins") {
					want = outs
				}
				engine.InspectBody(f, func(nd ast.Node) {
					rs, isR := nd.(*ast.RangeStmt)
					if !isR || !(rs.Body.Pos() <= mv.Pos() && mv.Pos() < rs.Body.End()) || rs.Value == nil {
						return
					}
					el := engine.ObjOf(info, rs.Value)
					if engine.ObjOf(info, rs.X) == want && kcSelOf(info, kcArg(mv, 1), el, "Address") && kcSelOf(info, kcArg(mv, 2), el, "Coins") {
						ok = true
					}
				})
			}
			kcAt(c, p, "transfer-pairing", f.Name+" "+mv.CalleeName()[strings.LastIndexByte(mv.CalleeName(), '.')+1:], mv.Pos(), ok, why)
		}
	}
	if f := c.MustFunc(c08Bank + ".ValidateInputsOutputs"); f != nil {
		info := f.Info()
		g := f.Graph()
		for _, ex := range kcNormalExits(f) {
			rs, isRet := ex.Node.(*ast.ReturnStmt)
			if !isRet || len(rs.Results) != 1 || !isNil(rs.Results[0]) {
				continue
			}
			ok := false
			for _, ft := range kcFacts(g, ex) {
				call, isCall := ast.Unparen(ft.Expr).(*ast.CallExpr)
				if !isCall || !ft.Val || len(call.Args) != 1 {
					continue
				}
				se, isSel := call.Fun.(*ast.SelectorExpr)
				if !isSel || se.Sel.Name != "IsEqual" {
					continue
				}
				a, b := engine.ObjOf(info, se.X), engine.ObjOf(info, call.Args[0])
				if a == nil || b == nil || a == b {
					continue
				}
				// each is accumulated by X = X.Add(elem.Coins) over the respective parameter
				if c14accumOver(f, a, paramObj(f, 0)) && c14accumOver(f, b, paramObj(f, 1)) || c14accumOver(f, a, paramObj(f, 1)) && c14accumOver(f, b, paramObj(f, 0)) {
					ok = true
				}
			}
			kcAt(c, p, "transfer-pairing", f.Name+" accepts only equal input and output totals", ex.Pos(), ok, "return nil must be gated by totalIn.IsEqual(totalOut) with the totals accumulated over inputs resp. outputs")
		}
	}
}

// c14accumOver: variable acc is only ever assigned `acc = acc.Add(e.Coins)` inside `for _, e := range slice`.
func c14accumOver(f *engine.Fn, acc, slice types.Object) bool {
	info := f.Info()
	rhs, ok := kcDefs(f, acc)
	if !ok || len(rhs) != 1 {
		return false
	}
	call, isCall := ast.Unparen(rhs[0]).(*ast.CallExpr)
	if !isCall || len(call.Args) != 1 {
		return false
	}
	se, isSel := call.Fun.(*ast.SelectorExpr)
	if !isSel || se.Sel.Name != "Add" || engine.ObjOf(info, se.X) != acc {
		return false
	}
	found := false
	engine.InspectBody(f, func(nd ast.Node) {
		rs, isR := nd.(*ast.RangeStmt)
		if !isR || rs.Value == nil || engine.ObjOf(info, rs.X) != slice {
			return
		}
		if rs.Body.Pos() <= call.Pos() && call.End() <= rs.Body.End() && kcSelOf(info, call.Args[0], engine.ObjOf(info, rs.Value), "Coins") {
			found = true
		}
	})
	return found
}

func c14balances(c *engine.Ctx, p *engine.Prog) {
	B := c08Bank + ".(BankKeeper)."
	W := c08Bank + ".(ViewKeeper)."
	// encodeBalance refuses non-positive
	if f := c.MustFunc(c08Bank + ".encodeBalance"); f != nil {
		g := f.Graph()
		a := paramObj(f, 0)
		for _, ex := range kcNormalExits(f) {
			ok := false
			for _, ft := range kcFacts(g, ex) {
				x, y, op, okc := kcCmp(ft)
				if okc && op == token.GTR && engine.ObjOf(f.Info(), x) == a {
					if lit, isLit := y.(*ast.BasicLit); isLit && lit.Value == "0" {
						ok = true
					}
				}
			}
			kcAt(c, p, "positive-balance", f.Name+" returns only for amount > 0", ex.Pos(), ok, "")
		}
	}
	// setSplitBalance / setSupply: Set only with encodeBalance(amount), for the key of (addr, denom)
	for _, sp := range []struct{ fn, keyFn string }{{"setSplitBalance", c08Bank + ".BalanceKey"}, {"setSupply", c08Bank + ".SupplyKey"}} {
		f := c.MustFunc(B + sp.fn)
		if f == nil {
			continue
		}
		info := f.Info()
		amount := kcParam(f, "amount")
		n := 0
		for _, s := range f.Calls() {
			if !strings.HasSuffix(s.CalleeName(), "(Store).Set") {
				continue
			}
			n++
			enc := kcIsCallTo(info, kcResolve(f, kcArg(s, 2)), c08Bank+".encodeBalance")
			okv := enc != nil && engine.ObjOf(info, enc.Args[0]) == amount
			kd := kcIsCallTo(info, kcResolve(f, kcArg(s, 1)), sp.keyFn)
			okk := kd != nil
			if okk {
				for i, a := range kd.Args {
					if kcParamIndex(f, engine.ObjOf(info, a)) != i+1 {
						okk = false
					}
				}
			}
			kcAt(c, p, "positive-balance", f.Name+" stores encodeBalance(amount) under the key of its own arguments", s.Pos(), okv && okk, "")
		}
		c.Floor("positive-balance "+sp.fn, n, 1)
	}
	// splitByTier
	if f := c.MustFunc(W + "splitByTier"); f != nil {
		info := f.Info()
		g := f.Graph()
		n := 0
		var splitO, accO types.Object
		if f.Type.Results != nil && len(f.Type.Results.List) > 0 {
			k := 0
			for _, fld := range f.Type.Results.List {
				for _, nm := range fld.Names {
					if k == 0 {
						splitO = info.ObjectOf(nm)
					} else if k == 1 {
						accO = info.ObjectOf(nm)
					}
					k++
				}
			}
		}
		for _, s := range f.CallsTo("builtin.append") {
			as, isAs := s.Top.(*ast.AssignStmt)
			if !isAs {
				continue
			}
			n++
			dst := engine.ObjOf(info, as.Lhs[0])
			var inTier, notTier bool
			for _, ft := range kcFacts(g, s) {
				if call := kcIsCallTo(info, ft.Expr, W+"inAccountTier"); call != nil {
					if se, isSel := ast.Unparen(call.Args[0]).(*ast.SelectorExpr); isSel && se.Sel.Name == "Denom" && engine.ObjOf(info, se.X) == engine.ObjOf(info, kcArg(s, 1)) {
						inTier, notTier = ft.Val, !ft.Val
					}
				}
			}
			ok := (dst == accO && inTier) || (dst == splitO && notTier)
			kcAt(c, p, "tier-routing", f.Name+" append to "+dst.Name(), s.Pos(), ok && dst != nil && splitO != nil, "a coin goes to the account half iff inAccountTier(coin.Denom)")
		}
		c.Floor("tier-routing", n, 2)
	}
	if f := c.MustFunc(W + "inAccountTier"); f != nil {
		ok := false
		engine.InspectBody(f, func(nd ast.Node) {
			if ix, isIx := nd.(*ast.IndexExpr); isIx {
				if se, isSel := ast.Unparen(ix.X).(*ast.SelectorExpr); isSel && se.Sel.Name == "accountDenoms" && engine.ObjOf(f.Info(), ix.Index) == paramObj(f, 0) {
					ok = true
				}
			}
		})
		kcAt(c, p, "tier-routing", f.Name+" is exact membership in the allowlist", f.Pos(), ok, "")
	}
	// users of the halves: split half -> setSplitBalance, account half -> account object
	for _, fn := range []string{"subtract", "AddCoins", "SetCoins"} {
		f := c.MustFunc(B + fn)
		if f == nil {
			continue
		}
		info := f.Info()
		sp := f.CallsTo(W + "splitByTier")
		if len(sp) != 1 {
			kcAt(c, p, "tier-routing", f.Name+" splits once", f.Pos(), false, "expected exactly one splitByTier call")
			continue
		}
		as, isAs := sp[0].Top.(*ast.AssignStmt)
		if !isAs || len(as.Lhs) != 2 {
			kcAt(c, p, "tier-routing", f.Name+" splits once", f.Pos(), false, "splitByTier results not bound")
			continue
		}
		splitO, accO := engine.ObjOf(info, as.Lhs[0]), engine.ObjOf(info, as.Lhs[1])
		amtP := kcParam(f, "amt")
		kcAt(c, p, "tier-routing", f.Name+" splits its amt parameter", sp[0].Pos(), engine.ObjOf(info, kcArg(sp[0], 0)) == amtP && amtP != nil, "")
		// every setSplitBalance denom derives from ranging over split (directly, or over a slice filled from ranging split), never from account
		for _, s := range f.CallsTo(B + "setSplitBalance") {
			ok := false
			engine.InspectBody(f, func(nd ast.Node) {
				rs, isR := nd.(*ast.RangeStmt)
				if !isR || !(rs.Body.Pos() <= s.Pos() && s.Pos() < rs.Body.End()) {
					return
				}
				xo := engine.ObjOf(info, rs.X)
				if xo == splitO {
					ok = true
					return
				}
				if xo == accO || xo == nil {
					// ranging a call result (SetCoins clears bank.splitCoins(ctx, addr)) is fine when it is splitCoins
					if kcIsCallTo(info, rs.X, W+"splitCoins") != nil {
						ok = true
					}
					return
				}
				// derived slice: made with len(split) and filled inside `range split`
				if d := kcSingleDef(f, xo); d != nil {
					if mk, isCall := ast.Unparen(d).(*ast.CallExpr); isCall && engine.IsBuiltinCall(info, mk, "make") && len(mk.Args) >= 2 && engine.IsLenOf(info, mk.Args[1], splitO) {
						ok = true
					} else if isCall {
						// or returned by a helper that builds it element-wise from the split half it is given
						callee, _ := f.SiteOf(mk).Callee.(*types.Func)
						if h := p.FnOf(callee); h != nil && h != f {
							for k, a := range mk.Args {
								if engine.ObjOf(info, a) != splitO {
									continue
								}
								hp := paramObj(h, k)
								good, nret := true, 0
								engine.InspectBody(h, func(n2 ast.Node) {
									rs, isRet := n2.(*ast.ReturnStmt)
									if !isRet || len(rs.Results) == 0 {
										return
									}
									nret++
									r0 := ast.Unparen(rs.Results[0])
									if isNil(r0) {
										return
									}
									ro := engine.ObjOf(h.Info(), r0)
									hm, isMk := ast.Unparen(kcSingleDef(h, ro)).(*ast.CallExpr)
									if ro == nil || !isMk || !engine.IsBuiltinCall(h.Info(), hm, "make") || len(hm.Args) < 2 || !engine.IsLenOf(h.Info(), hm.Args[1], hp) {
										good = false
									}
								})
								if good && nret > 0 && hp != nil {
									ok = true
								}
							}
						}
					}
				}
			})
			kcAt(c, p, "tier-routing", f.Name+" split-tier write uses the split half", s.Pos(), ok, "setSplitBalance must be fed from the split half of splitByTier")
		}
	}
}

func c14arith(c *engine.Ctx, p *engine.Prog) {
	B := c08Bank + ".(BankKeeper)."
	// frozen list of raw int64 arithmetic sites in the keeper (function -> op -> max count)
	allowed := map[string]map[token.Token]int{
		B + "subtract":      {token.SUB: 1},
		B + "nextSupply":    {token.MUL: 2}, // sign*coin.Amount (once in the sum, once in the error text)
		B + "SubtractCoins": {token.SUB: 1},
	}
	skipFile := func(fn *engine.Fn) bool {
		file := p.Fset.Position(fn.Pos()).Filename
		for _, s := range []string{"pb3_gen.go", "invariants.go", "msgs.go", "handler.go", "genesis.go", "params.go", "errors.go"} {
			if strings.HasSuffix(file, "/"+s) {
				return true
			}
		}
		return kcInTestSupport(p, fn)
	}
	seen := map[string]map[token.Token]int{}
	total, scanned := 0, 0
	for _, f := range p.FuncsIn(c08Bank) {
		if skipFile(f) {
			continue
		}
		info := f.Info()
		// a reviewed site may live in a private helper used by one function only: attribute it to that function
		name := kcOwnerRoot(p, f.Root(), 3).Name
		scanned++
		engine.InspectBody(f, func(nd ast.Node) {
			var op token.Token
			var pos token.Pos
			var t types.Type
			switch x := nd.(type) {
			case *ast.BinaryExpr:
				if x.Op != token.ADD && x.Op != token.SUB && x.Op != token.MUL {
					return
				}
				op, pos, t = x.Op, x.Pos(), info.TypeOf(x)
				if tv, ok := info.Types[x]; ok && tv.Value != nil {
					return // constant expression
				}
			case *ast.AssignStmt:
				switch x.Tok {
				case token.ADD_ASSIGN:
					op = token.ADD
				case token.SUB_ASSIGN:
					op = token.SUB
				case token.MUL_ASSIGN:
					op = token.MUL
				default:
					return
				}
				pos, t = x.Pos(), info.TypeOf(x.Lhs[0])
			case *ast.UnaryExpr:
				if x.Op != token.SUB {
					return
				}
				if tv, ok := info.Types[x]; ok && tv.Value != nil {
					return
				}
				op, pos, t = token.SUB, x.Pos(), info.TypeOf(x)
			default:
				return
			}
			b, ok := t.Underlying().(*types.Basic)
			if !ok || b.Kind() != types.Int64 {
				return
			}
			total++
			if seen[name] == nil {
				seen[name] = map[token.Token]int{}
			}
			seen[name][op]++
			if seen[name][op] > allowed[name][op] {
				kcAt(c, p, "balance-arith", name+" raw int64 "+op.String(), pos, false, "native arithmetic on an int64 amount outside the guarded, confirmed sites (use overflow.*)")
			}
		})
	}
	_ = total
	c.Floor("balance-arith functions scanned", scanned, 20)

	// subtract: old - coin.Amount guarded by old >= coin.Amount, old read for the same (addr, denom) that is written
	if f := c.MustFunc(B + "subtract"); f != nil {
		info := f.Info()
		g := f.Graph()
		addr := kcParam(f, "addr")
		n := 0
		_ = g
		for _, ds := range f.DeepFind(2, func(fn *engine.Fn, nd ast.Node) bool {
			be, isB := nd.(*ast.BinaryExpr)
			if !isB || be.Op != token.SUB {
				return false
			}
			b, ok := fn.Info().TypeOf(be).Underlying().(*types.Basic)
			return ok && b.Kind() == types.Int64
		}) {
			// only f itself and private helpers owned by f
			if ds.Inner.Fn != f && kcOwnerRoot(p, ds.Inner.Fn.Root(), 3) != f {
				continue
			}
			n++
			d := kcMakeDeep(f, ds)
			be := ds.Inner.Node.(*ast.BinaryExpr)
			X := kcResolve(f, d.Expr(be.X))
			Y := d.Expr(be.Y)
			ok, why := false, "the difference is not guarded by old >= amount"
			for _, ft := range d.Facts() {
				x, y, op, okc := kcCmp(ft)
				if okc && op == token.GEQ && engine.ExprString(kcResolve(f, x)) == engine.ExprString(X) && engine.ExprString(y) == engine.ExprString(Y) {
					ok = true
				}
			}
			if ok {
				gc := kcIsCallTo(info, X, c08Bank+".(ViewKeeper).getSplitBalance")
				if gc == nil || len(gc.Args) != 3 || engine.ObjOf(info, kcResolve(f, gc.Args[1])) != addr {
					ok, why = false, "old is not getSplitBalance(ctx, addr, coin.Denom) of the debited address"
				} else if ys, isSel := ast.Unparen(Y).(*ast.SelectorExpr); !isSel || ys.Sel.Name != "Amount" || engine.ExprString(gc.Args[2]) != engine.ExprString(ys.X)+".Denom" {
					ok, why = false, "balance read for `"+engine.ExprString(gc.Args[2])+"` but debited by `"+engine.ExprString(Y)+"`"
				}
			}
			kcAt(c, p, "balance-arith", f.Name+" checked difference", be.Pos(), ok, why)
		}
		c.Floor("balance-arith subtract", n, 1)
		// writes use addr and the coin's own denom/amount
		for _, s := range f.CallsTo(B + "setSplitBalance") {
			ok := engine.ObjOf(info, kcArg(s, 1)) == addr
			if a2, a3 := kcArg(s, 2), kcArg(s, 3); ok {
				s2, ok2 := ast.Unparen(a2).(*ast.SelectorExpr)
				s3, ok3 := ast.Unparen(a3).(*ast.SelectorExpr)
				ok = ok2 && ok3 && s2.Sel.Name == "Denom" && s3.Sel.Name == "Amount" && engine.ObjOf(info, s2.X) == engine.ObjOf(info, s3.X)
			}
			kcAt(c, p, "balance-arith", f.Name+" writes (addr, coin.Denom, coin.Amount)", s.Pos(), ok, "")
		}
	}
	// AddCoins: credited amount is the overflow-checked sum
	if f := c.MustFunc(B + "AddCoins"); f != nil {
		info := f.Info()
		g := f.Graph()
		addr := kcParam(f, "addr")
		n := 0
		engine.InspectBody(f, func(nd ast.Node) {
			as, isAs := nd.(*ast.AssignStmt)
			if !isAs || len(as.Lhs) != 1 {
				return
			}
			if _, isIx := ast.Unparen(as.Lhs[0]).(*ast.IndexExpr); !isIx {
				return
			}
			cl, isCL := ast.Unparen(as.Rhs[0]).(*ast.CompositeLit)
			if !isCL {
				return
			}
			n++
			var amtE, denE ast.Expr
			for _, el := range cl.Elts {
				if kv, isKV := el.(*ast.KeyValueExpr); isKV {
					if k, _ := kv.Key.(*ast.Ident); k != nil && k.Name == "Amount" {
						amtE = kv.Value
					} else if k != nil && k.Name == "Denom" {
						denE = kv.Value
					}
				}
			}
			ok, why := false, "the credited amount is not the result of overflow.Add(old, coin.Amount) under ok"
			so := engine.ObjOf(info, amtE)
			s := f.SiteOf(as)
			if so != nil && kcIsIdent(amtE) {
				engine.InspectBody(f, func(n2 ast.Node) {
					a2, isA := n2.(*ast.AssignStmt)
					if !isA || len(a2.Lhs) != 2 || len(a2.Rhs) != 1 || engine.ObjOf(info, a2.Lhs[0]) != so {
						return
					}
					call := kcIsCallTo(info, a2.Rhs[0], "tm2/pkg/overflow.Add")
					if call == nil {
						return
					}
					okO := engine.ObjOf(info, a2.Lhs[1])
					gated := false
					for _, ft := range kcFacts(g, s) {
						if id, isID := ft.Expr.(*ast.Ident); isID && ft.Val && info.ObjectOf(id) == okO {
							gated = true
						}
					}
					old := kcResolve(f, call.Args[0])
					gc := kcIsCallTo(info, old, c08Bank+".(ViewKeeper).getSplitBalance")
					ys, isSel := ast.Unparen(call.Args[1]).(*ast.SelectorExpr)
					if gated && gc != nil && engine.ObjOf(info, gc.Args[1]) == addr && isSel && ys.Sel.Name == "Amount" &&
						engine.ExprString(gc.Args[2]) == engine.ExprString(ys.X)+".Denom" && engine.ExprString(denE) == engine.ExprString(gc.Args[2]) {
						ok = true
					}
				})
			}
			kcAt(c, p, "balance-arith", f.Name+" checked sum", as.Pos(), ok, why)
		})
		c.Floor("balance-arith AddCoins", n, 1)
		for _, s := range f.CallsTo(B + "setSplitBalance") {
			ok := engine.ObjOf(info, kcArg(s, 1)) == addr
			kcAt(c, p, "balance-arith", f.Name+" writes the credited address", s.Pos(), ok, "")
		}
	}
}

func c14accounts(c *engine.Ctx, p *engine.Prog) {
	B := c08Bank + ".(BankKeeper)."
	A := "tm2/pkg/sdk/auth.(AccountKeeper)."
	if f := c.MustFunc(A + "SetAccount"); f != nil {
		info := f.Info()
		acc := kcParam(f, "acc")
		n := 0
		for _, s := range f.Calls() {
			if !strings.HasSuffix(s.CalleeName(), "(Store).Set") {
				continue
			}
			n++
			ok := false
			if kc := kcIsCallTo(info, kcResolve(f, kcArg(s, 1)), "tm2/pkg/sdk/auth.AddressStoreKey"); kc != nil {
				ad := kcResolve(f, kc.Args[0])
				if call, isCall := ad.(*ast.CallExpr); isCall && len(call.Args) == 0 {
					if se, isSel := call.Fun.(*ast.SelectorExpr); isSel && se.Sel.Name == "GetAddress" && engine.ObjOf(info, se.X) == acc {
						ok = true
					}
				}
			}
			kcAt(c, p, "account-address", f.Name+" files the account under its own address", s.Pos(), ok, "store key must be AddressStoreKey(acc.GetAddress())")
		}
		c.Floor("account-address SetAccount", n, 1)
	}
	if f := c.MustFunc(B + "subtract"); f != nil {
		info := f.Info()
		g := f.Graph()
		acc, addr := kcParam(f, "acc"), kcParam(f, "addr")
		tg := append(f.CallsTo(B+"setAccountTierCoins"), f.CallsTo("tm2/pkg/sdk/auth.(AccountKeeper).SetAccount", "tm2/pkg/sdk/auth.(AccountKeeperI).SetAccount")...)
		c.Floor("account-address subtract", len(tg), 2)
		for _, s := range tg {
			ok := false
			ok = kcFalseConj(kcGates(g, s),
				func(e ast.Expr) bool {
					return kcCmpAny(e, func(x, y ast.Expr, op token.Token) bool {
						return op == token.NEQ && engine.ObjOf(info, x) == acc && kcIsIdent(x) && isNil(y)
					})
				},
				func(e ast.Expr) bool {
					return kcCmpAny(e, func(x, y ast.Expr, op token.Token) bool {
						r, isM := kcMethodCallOn(kcResolve(f, x), "GetAddress")
						return isM && op == token.NEQ && engine.ObjOf(info, r) == acc && engine.ObjOf(info, kcResolve(f, y)) == addr
					})
				})
			kcAt(c, p, "account-address", f.Name+" threaded account must belong to addr before "+s.CalleeName()[strings.LastIndexByte(s.CalleeName(), '.')+1:], s.Pos(), ok, "writes must be unreachable when acc != nil && acc.GetAddress() != addr (exactly)")
		}
	}
	if f := c.MustFunc(B + "ensureAccount"); f != nil {
		info := f.Info()
		addr := kcParam(f, "addr")
		ok := true
		n := 0
		for _, s := range f.CallsTo(".GetAccount", ".NewAccountWithAddress") {
			n++
			if engine.ObjOf(info, kcArg(s, 1)) != addr {
				ok = false
			}
		}
		kcAt(c, p, "account-address", f.Name+" looks up and creates the account of its addr", f.Pos(), ok && n >= 2, "")
	}
	if f := c.MustFunc(B + "setAccountTierCoins"); f != nil {
		info := f.Info()
		acc, addr := kcParam(f, "acc"), kcParam(f, "addr")
		ok := false
		rhs, okd := kcDefs(f, acc)
		if okd && len(rhs) == 1 {
			if call := kcIsCallTo(info, rhs[0], B+"ensureAccount"); call != nil && engine.ObjOf(info, call.Args[1]) == addr {
				ok = true
			}
		}
		kcAt(c, p, "account-address", f.Name+" falls back to ensureAccount(addr) only", f.Pos(), ok, "")
	}
}

func c14genesis(c *engine.Ctx, p *engine.Prog) {
	G := "gno.land/pkg/gnoland.(InitChainerConfig)."
	refs := p.RefsToFunc(G + "applyBalance")
	n := 0
	seen := map[*engine.Fn]bool{}
	for _, r := range refs {
		if r.Fn == nil || seen[r.Fn] {
			continue
		}
		seen[r.Fn] = true
		f := r.Fn
		n++
		ab := f.CallsTo(G + "applyBalance")
		sd := f.CallsTo(G + "seedSupply")
		ok := len(sd) > 0 && len(ab) > 0
		for _, a := range ab {
			follows := false
			for _, s := range sd {
				if kcMustFollowOK(f, a, s) && !f.Graph().ReachableAfter(s, a) {
					follows = true
				}
			}
			if !follows {
				ok = false
			}
		}
		kcAt(c, p, "genesis-seed", f.Name+" seeds supply after writing balances", f.Pos(), ok, "every path that calls applyBalance must afterwards call seedSupply (RecomputeSupply), and no balance may be applied after the seed")
	}
	c.Floor("genesis-seed", n, 2)
	if f := c.MustFunc(G + "seedSupply"); f != nil {
		kcAt(c, p, "genesis-seed", f.Name+" recomputes", f.Pos(), len(f.CallsTo(".RecomputeSupply")) == 1, "")
	}
}
