package checks

import (
	"go/ast"
	"go/constant"
	"go/token"
	"go/types"
	"strings"

	"gnoverif/engine"
)

// C41 — block and state stores return exactly what was saved.
func init() {
	register("C41", c41)
	meta("C41", Meta{
		Text:      "Decides that the save and load sides of the block store and the state store agree structurally: (1) a key-namespace table built from the resolved program — for every key builder the set of functions writing under it and the set reading under it equal the frozen table, and the literal key prefixes of one database are pairwise prefix-free; (2) for every key the amino codec and the static Go type marshalled on the write side equal the codec/type unmarshalled on the read side (incl. block parts: MarshalSized in MakePartSet vs UnmarshalSized in LoadBlock); (3) height/index arguments agree (LastCommit under height-1, seen commit and meta under height, part i under i; loaders use their height parameter); (4) in SaveBlock the nil, contiguity and IsComplete tests gate every write, BlockStore.height is written only there, with the validated height, after the persisted descriptor; (5) validator/params checkpoint logic: the full set is stored exactly at change or checkpoint heights and the loader follows LastHeightChanged / the checkpoint with the same interval constant and advances proposer priority by the height difference; saveState stores the next-next validators and next params under the matching heights. Level 'other'.",
		Note:      "Not covered: DB fidelity (C29), that the validator set handed to saveState is the one in effect (execution.go semantics), pruning, concurrent readers during SaveBlock (writes are not one batch).",
		Technique: "resolved call-site tables (who writes/reads which key builder), static type + codec agreement, CFG gates and dominance, constant/prefix comparison",
		Ref:       "DESIGN.md §2 C41",
	})
	const bs = "tm2/pkg/bft/store/store.go"
	const ss = "tm2/pkg/bft/state/store.go"
	mutants("C41",
		Mutant{"seen-commit-read-under-commit-key", bs, "bz, err := bs.db.Get(calcSeenCommitKey(height))", "bz, err := bs.db.Get(calcBlockCommitKey(height))", "key-namespace"},
		Mutant{"commit-saved-under-own-height", bs, "bs.db.Set(calcBlockCommitKey(height-1), blockCommitBytes)", "bs.db.Set(calcBlockCommitKey(height), blockCommitBytes)", "height-arg"},
		Mutant{"seen-commit-swapped", bs, "seenCommitBytes := amino.MustMarshal(seenCommit)", "seenCommitBytes := amino.MustMarshal(block.LastCommit)", "height-arg"},
		Mutant{"meta-written-as-header", bs, "metaBytes := amino.MustMarshal(blockMeta)", "metaBytes := amino.MustMarshal(blockMeta.Header)", "wire-type"},
		Mutant{"validators-info-read-as-json", ss, "\tv := new(ValidatorsInfo)\n\terr = amino.Unmarshal(buf, v)", "\tv := new(ValidatorsInfo)\n\terr = amino.UnmarshalJSON(buf, v)", "wire-type"},
		Mutant{"block-decoded-unsized", bs, "err := amino.UnmarshalSized(buf, block)", "err := amino.Unmarshal(buf, block)", "wire-type"},
		Mutant{"contiguity-weakened", bs, "if g, w := height, bs.Height()+1; g != w {", "if g, w := height, bs.Height()+1; g < w {", "save-guards"},
		Mutant{"incomplete-parts-saved", bs, "\tif !blockParts.IsComplete() {\n\t\tpanic(\"BlockStore can only save complete block part sets\")\n\t}\n", "", "save-guards"},
		Mutant{"height-set-elsewhere", bs, "func (bs *BlockStore) LoadSeenCommit(height int64) *types.Commit {\n", "func (bs *BlockStore) LoadSeenCommit(height int64) *types.Commit {\n\tbs.height = height\n", "height-writer"},
		Mutant{"checkpoint-not-stored", ss, "if height == lastHeightChanged || height%valSetCheckpointInterval == 0 {", "if height == lastHeightChanged {", "checkpoint"},
		Mutant{"loader-ignores-checkpoint", ss, "return max(checkpointHeight, lastHeightChanged)", "return min(checkpointHeight, lastHeightChanged)", "checkpoint"},
		Mutant{"priority-not-advanced", ss, "valInfo2.ValidatorSet.IncrementProposerPriority(int(height - lastStoredHeight)) // mutate", "valInfo2.ValidatorSet.IncrementProposerPriority(int(height - valInfo.LastHeightChanged)) // mutate", "checkpoint"},
		Mutant{"params-pointer-not-followed", ss, "paramsInfo2 := loadConsensusParamsInfo(db, paramsInfo.LastHeightChanged)", "paramsInfo2 := loadConsensusParamsInfo(db, height-1)", "checkpoint"},
		Mutant{"next-validators-under-wrong-height", ss, "saveValidatorsInfo(db, nextHeight+1, state.LastHeightValidatorsChanged, state.NextValidators)", "saveValidatorsInfo(db, nextHeight, state.LastHeightValidatorsChanged, state.NextValidators)", "save-state"},
	)
}

const (
	c41BS  = "tm2/pkg/bft/store"
	c41ST  = "tm2/pkg/bft/state"
	c41DBI = "tm2/pkg/db.(DB)."
)

type c41Key struct {
	builder  string // function or package-level var
	writers  []string
	readers  []string
	viaParam bool // the key var is passed to a helper (stateKey)
}

var c41Keys = []c41Key{
	{c41BS + ".calcBlockMetaKey", []string{c41BS + ".(*BlockStore).SaveBlock"}, []string{c41BS + ".(*BlockStore).LoadBlockMeta"}, false},
	{c41BS + ".calcBlockPartKey", []string{c41BS + ".(*BlockStore).saveBlockPart"}, []string{c41BS + ".(*BlockStore).LoadBlockPart"}, false},
	{c41BS + ".calcBlockCommitKey", []string{c41BS + ".(*BlockStore).SaveBlock"}, []string{c41BS + ".(*BlockStore).LoadBlockCommit"}, false},
	{c41BS + ".calcSeenCommitKey", []string{c41BS + ".(*BlockStore).SaveBlock"}, []string{c41BS + ".(*BlockStore).LoadSeenCommit"}, false},
	{c41BS + ".blockStoreKey", []string{c41BS + ".(BlockStoreStateJSON).Save"}, []string{c41BS + ".LoadBlockStoreStateJSON"}, false},
	{c41ST + ".calcValidatorsKey", []string{c41ST + ".saveValidatorsInfo"}, []string{c41ST + ".loadValidatorsInfo"}, false},
	{c41ST + ".calcConsensusParamsKey", []string{c41ST + ".saveConsensusParamsInfo"}, []string{c41ST + ".loadConsensusParamsInfo"}, false},
	{c41ST + ".CalcABCIResponsesKey", []string{c41ST + ".SaveABCIResponses"}, []string{c41ST + ".LoadABCIResponses"}, false},
	{c41ST + ".CalcTxResultKey", []string{c41ST + ".saveTxResultIndex"}, []string{c41ST + ".LoadTxResultIndex"}, false},
	{c41ST + ".stateKey", []string{c41ST + ".SaveState"}, []string{c41ST + ".LoadState"}, true},
}

type c41Use struct {
	fn   *engine.Fn
	call *ast.CallExpr // the db.Set/SetSync/Get call
	key  ast.Expr      // the key argument expression (builder call or var)
}

func c41(c *engine.Ctx) {
	c.Explain = "Save/load agreement of the block store and state store (see manifest text): key-namespace table with prefix-free literal prefixes, codec and static type agreement per key, height/index argument agreement, SaveBlock guards and height publication, checkpoint/pointer logic of validators and consensus params, saveState height pairing. Not covered: DB fidelity, semantics of which validator set is in effect, pruning, non-atomic SaveBlock."
	p := c.Load(c41BS, c41ST, "tm2/pkg/bft/types")
	if p == nil {
		return
	}
	uses := c41KeyTable(c, p)
	c41WireTypes(c, p, uses)
	c41HeightArgs(c, p)
	c41SaveGuards(c, p)
	c41Checkpoint(c, p)
	c41SaveState(c, p)
}

// c41KeyTable resolves, for every key builder, the db calls made under it.
func c41KeyTable(c *engine.Ctx, p *engine.Prog) map[string]map[string][]c41Use {
	out := map[string]map[string][]c41Use{}
	n := 0
	for _, k := range c41Keys {
		obj := p.Object(k.builder)
		if obj == nil {
			c.Undecided("key-namespace", k.builder, "key builder not found")
			continue
		}
		out[k.builder] = map[string][]c41Use{}
		isKey := func(info *types.Info) func(ast.Expr) bool {
			return func(e ast.Expr) bool {
				e = ast.Unparen(e)
				if cl, ok := e.(*ast.CallExpr); ok {
					return engine.ObjOf(info, cl.Fun) == obj
				}
				return engine.ObjOf(info, e) == obj
			}
		}
		target := obj
		var writers, readers, others []string
		all := append(p.FuncsIn(c41BS), p.FuncsIn(c41ST)...)
		// attrib: the functions on whose behalf the key expression e of f names this builder:
		// f itself when e derives from the builder inside f, else — when e is a parameter of an
		// unexported helper — the callers that pass such a key (followed transitively).
		var attrib func(f *engine.Fn, e ast.Expr, depth int) []string
		attrib = func(f *engine.Fn, e ast.Expr, depth int) []string {
			if sfDerives(f, e, isKey(f.Info()), 2) {
				return []string{f.Root().Name}
			}
			if depth <= 0 || f.Obj == nil || f.Obj.Exported() {
				return nil
			}
			pi := -1
			x := ast.Unparen(e)
			for i := 0; i < 4; i++ {
				id, ok := x.(*ast.Ident)
				if !ok {
					break
				}
				o := f.Info().ObjectOf(id)
				if k := sfParamIdx(f, o); k >= 0 {
					pi = k
					break
				}
				d := sfSingleDef(f, o)
				if d == nil {
					break
				}
				x = ast.Unparen(d)
			}
			if pi < 0 {
				return nil
			}
			var out []string
			for _, g := range all {
				for _, s := range g.Calls() {
					if fn, ok := s.Callee.(*types.Func); ok && fn.Origin() == f.Obj.Origin() && pi < len(s.Call.Args) {
						out = append(out, attrib(g, s.Call.Args[pi], depth-1)...)
					}
				}
			}
			return out
		}
		for _, f := range all {
			for _, s := range f.Calls() {
				nm := s.CalleeName()
				if !strings.HasPrefix(nm, c41DBI) || len(s.Call.Args) == 0 {
					continue
				}
				who := attrib(f, s.Call.Args[0], 3)
				if len(who) == 0 {
					continue
				}
				u := c41Use{fn: f, call: s.Call, key: s.Call.Args[0]}
				switch strings.TrimPrefix(nm, c41DBI) {
				case "Set", "SetSync":
					writers = append(writers, who...)
					out[k.builder]["w"] = append(out[k.builder]["w"], u)
				case "Get", "Has":
					readers = append(readers, who...)
					out[k.builder]["r"] = append(out[k.builder]["r"], u)
				default:
					others = append(others, f.Root().Name+":"+nm)
				}
			}
		}
		// every other reference to the builder must be one of those functions (no stray use)
		refs := engine.CallerSet(p.RefsTo(func(o types.Object) bool { return o == target }))
		extra := sfWritersOK(p, refs, append(append([]string{}, k.writers...), k.readers...))
		if strings.HasSuffix(k.builder, "CalcABCIResponsesKey") || strings.HasSuffix(k.builder, "CalcTxResultKey") {
			extra = nil // exported builders are also used by other packages for reads
		}
		n++
		c.Check("key-namespace", k.builder+" used only by its save/load pair", token.NoPos, len(extra) == 0, "other users: "+join(extra))
		n++
		c.Check("key-namespace", k.builder+" writers", token.NoPos, len(writers) >= 1 && len(sfWritersOK(p, c22Uniq(sfSorted(writers...)), k.writers)) == 0 && len(others) == 0,
			"functions writing under this key: "+join(c22Uniq(sfSorted(writers...)))+"; expected "+join(k.writers))
		n++
		c.Check("key-namespace", k.builder+" readers", token.NoPos, len(readers) >= 1 && len(sfWritersOK(p, c22Uniq(sfSorted(readers...)), k.readers)) == 0,
			"functions reading under this key: "+join(c22Uniq(sfSorted(readers...)))+"; expected "+join(k.readers))
	}
	c.Floor("key-namespace", n, 30)
	// every db write/read in the two packages is under a known key (or the nil/nil flush)
	m := 0
	for _, f := range append(p.FuncsIn(c41BS), p.FuncsIn(c41ST)...) {
		for _, s := range f.Calls() {
			nm := s.CalleeName()
			if !strings.HasPrefix(nm, c41DBI) {
				continue
			}
			op := strings.TrimPrefix(nm, c41DBI)
			if op != "Set" && op != "SetSync" && op != "Get" && op != "Delete" && op != "DeleteSync" {
				continue
			}
			known := false
			for _, k := range c41Keys {
				for _, side := range []string{"w", "r"} {
					for _, u := range out[k.builder][side] {
						if u.call == s.Call {
							known = true
						}
					}
				}
			}
			if !known && op == "SetSync" && len(s.Call.Args) == 2 && isNil(s.Call.Args[0]) && isNil(s.Call.Args[1]) {
				known = true // flush idiom
			}
			m++
			c.Check("key-namespace", f.Root().Name+" db."+op+" under a tabled key", s.Pos(), known, "a store access outside the key table")
		}
	}
	c.Floor("key-access", m, 20)
	// literal prefixes are prefix-free per database
	for _, pkg := range []string{c41BS, c41ST} {
		var pref []string
		for _, k := range c41Keys {
			if !strings.HasPrefix(k.builder, pkg+".") {
				continue
			}
			if lit := c41KeyLiteral(p, k.builder); lit != "" {
				pref = append(pref, lit)
			} else {
				c.Undecided("key-prefix", k.builder, "cannot extract the literal key prefix")
			}
		}
		ok := true
		clash := ""
		for i := range pref {
			for j := range pref {
				if i != j && strings.HasPrefix(pref[i], pref[j]) {
					ok, clash = false, pref[j]+" is a prefix of "+pref[i]
				}
			}
		}
		c.Check("key-prefix", pkg+" key prefixes are prefix-free", token.NoPos, ok && len(pref) == 5, "prefixes: "+join(pref)+" "+clash)
	}
	return out
}

// c41KeyLiteral returns the constant prefix of a key builder: the format
// string up to the first verb, or the []byte("…") initialiser of a var.
func c41KeyLiteral(p *engine.Prog, name string) string {
	if f := p.Func(name); f != nil {
		lit := ""
		for _, s := range f.CallsTo("fmt.Appendf", "fmt.Sprintf") {
			for _, a := range s.Call.Args {
				if tv, ok := f.Info().Types[a]; ok && tv.Value != nil && tv.Value.Kind() == constant.String {
					lit = constant.StringVal(tv.Value)
				}
			}
		}
		if i := strings.IndexByte(lit, '%'); i >= 0 {
			return lit[:i]
		}
		return lit
	}
	obj := p.Object(name)
	if obj == nil {
		return ""
	}
	i := strings.LastIndexByte(name, '.')
	pk := p.Pkg(name[:i])
	if pk == nil {
		return ""
	}
	out := ""
	for _, file := range pk.Syntax {
		ast.Inspect(file, func(x ast.Node) bool {
			vs, ok := x.(*ast.ValueSpec)
			if !ok {
				return true
			}
			for j, id := range vs.Names {
				if pk.TypesInfo.Defs[id] == obj && j < len(vs.Values) {
					ast.Inspect(vs.Values[j], func(y ast.Node) bool {
						if bl, ok := y.(*ast.BasicLit); ok && bl.Kind == token.STRING {
							out = strings.Trim(bl.Value, "\"`")
						}
						return true
					})
				}
			}
			return true
		})
	}
	return out
}

var c41Codec = map[string]string{
	"tm2/pkg/amino.MustMarshal": "binary", "tm2/pkg/amino.Marshal": "binary", "tm2/pkg/amino.Unmarshal": "binary", "tm2/pkg/amino.MustUnmarshal": "binary",
	"tm2/pkg/amino.MarshalSized": "sized", "tm2/pkg/amino.MustMarshalSized": "sized", "tm2/pkg/amino.UnmarshalSized": "sized",
	"tm2/pkg/amino.MarshalJSON": "json", "tm2/pkg/amino.MustMarshalJSON": "json", "tm2/pkg/amino.UnmarshalJSON": "json",
}

// c41Marshalled resolves the value expression of a write to (codec, static type).
func c41Marshalled(p *engine.Prog, f *engine.Fn, e ast.Expr, depth int) (codec, typ string) {
	info := f.Info()
	e = ast.Unparen(e)
	if cl, ok := e.(*ast.CallExpr); ok {
		cn := sfCallee(info, cl)
		if cd, isM := c41Codec[cn]; isM && strings.Contains(cn, "Marshal") && !strings.Contains(cn, "Unmarshal") && len(cl.Args) == 1 {
			return cd, sfPointee(info.TypeOf(cl.Args[0]))
		}
		// x.Bytes() whose body is `return amino.MustMarshal(x)`
		if fn, isFn := engine.ObjOf(info, cl.Fun).(*types.Func); isFn && fn.Name() == "Bytes" {
			if bf := p.FnOf(fn); bf != nil {
				rs := sfReturns(bf)
				if len(rs) == 1 && len(rs[0].Results) == 1 {
					if in, isC := ast.Unparen(rs[0].Results[0]).(*ast.CallExpr); isC {
						if cd, isM := c41Codec[sfCallee(bf.Info(), in)]; isM && len(in.Args) == 1 && engine.ObjOf(bf.Info(), in.Args[0]) == sfRecvObj(bf) {
							return cd, sfPointee(sfRecvObj(bf).Type())
						}
					}
				}
			}
		}
		return "", ""
	}
	if id, ok := e.(*ast.Ident); ok && depth > 0 {
		defs, clean := sfDefs(f, info.ObjectOf(id))
		if clean && len(defs) == 1 {
			return c41Marshalled(p, f, defs[0], depth-1)
		}
	}
	return "", ""
}

// c41Unmarshalled finds the amino.Unmarshal* call in f fed by the result of getCall.
func c41Unmarshalled(f *engine.Fn, getCall *ast.CallExpr) (codec, typ string) {
	info := f.Info()
	var bz types.Object
	engine.InspectBody(f, func(x ast.Node) {
		if as, ok := x.(*ast.AssignStmt); ok && len(as.Rhs) == 1 && ast.Unparen(as.Rhs[0]) == ast.Expr(getCall) && len(as.Lhs) >= 1 {
			bz = engine.ObjOf(info, as.Lhs[0])
		}
	})
	if bz == nil {
		return "", ""
	}
	for _, s := range f.Calls() {
		cd, isU := c41Codec[s.CalleeName()]
		if !isU || !strings.Contains(s.CalleeName(), "Unmarshal") || len(s.Call.Args) != 2 {
			continue
		}
		if engine.ObjOf(info, s.Call.Args[0]) == bz {
			return cd, sfPointee(info.TypeOf(s.Call.Args[1]))
		}
	}
	return "", ""
}

func c41WireTypes(c *engine.Ctx, p *engine.Prog, uses map[string]map[string][]c41Use) {
	n := 0
	for _, k := range c41Keys {
		ws, rs := uses[k.builder]["w"], uses[k.builder]["r"]
		if len(ws) == 0 || len(rs) == 0 {
			continue
		}
		for _, w := range ws {
			wc, wt := c41Marshalled(p, w.fn, w.call.Args[len(w.call.Args)-1], 2)
			for _, r := range rs {
				rc, rt := c41Unmarshalled(r.fn, r.call)
				n++
				c.Check("wire-type", k.builder+" "+w.fn.Root().Name+" <-> "+r.fn.Root().Name, r.call.Pos(),
					wc != "" && rc != "" && wc == rc && wt == rt,
					"written as "+wc+"("+wt+"), read as "+rc+"("+rt+")")
			}
		}
	}
	// block parts: bytes produced by MarshalSized(block) and reassembled with UnmarshalSized into *Block
	mk := c.MustFunc("tm2/pkg/bft/types.(*Block).MakePartSet")
	lb := c.MustFunc(c41BS + ".(*BlockStore).LoadBlock")
	if mk != nil && lb != nil {
		wc, wt := "", ""
		for _, s := range mk.Calls() {
			if cd, ok := c41Codec[s.CalleeName()]; ok && !strings.Contains(s.CalleeName(), "Unmarshal") {
				wc, wt = cd, sfPointee(mk.Info().TypeOf(s.Call.Args[0]))
			}
		}
		rc, rt := "", ""
		for _, s := range lb.Calls() {
			if cd, ok := c41Codec[s.CalleeName()]; ok && strings.Contains(s.CalleeName(), "Unmarshal") {
				rc, rt = cd, sfPointee(lb.Info().TypeOf(s.Call.Args[1]))
			}
		}
		n++
		c.Check("wire-type", "block parts MakePartSet <-> LoadBlock", lb.Pos(), wc != "" && wc == rc && wt == rt, "written as "+wc+"("+wt+"), read as "+rc+"("+rt+")")
	}
	c.Floor("wire-type", n, 11)
}

func c41HeightArgs(c *engine.Ctx, p *engine.Prog) {
	n := 0
	f := c.MustFunc(c41BS + ".(*BlockStore).SaveBlock")
	if f != nil {
		// roles, resolved through locals and helper parameters:
		//   height  = <root param 0 (block)>.Height      seenCommit = root param 2
		fieldOfParam := func(name string, param int) func(*sfCtx, ast.Expr) bool {
			return func(cx *sfCtx, x ast.Expr) bool {
				se, ok := ast.Unparen(x).(*ast.SelectorExpr)
				return ok && se.Sel.Name == name && sfRootParam(cx, se.X) == param
			}
		}
		isH := func(cx *sfCtx, e ast.Expr) bool { return sfOperandIs(cx, e, fieldOfParam("Height", 0)) }
		isHm1 := func(cx *sfCtx, e ast.Expr) bool {
			return sfOperandIs(cx, e, func(c2 *sfCtx, x ast.Expr) bool {
				b, ok := ast.Unparen(x).(*ast.BinaryExpr)
				if !ok || b.Op != token.SUB || !isH(c2, b.X) {
					return false
				}
				k, isK := sfConstInt(c2.fn.Info(), b.Y)
				return isK && k == 1
			})
		}
		// value bytes originate from amino.<Marshal>(X) with X satisfying pred
		valueFrom := func(cx *sfCtx, e ast.Expr, pred func(*sfCtx, ast.Expr) bool) bool {
			return sfOperandIs(cx, e, func(c2 *sfCtx, x ast.Expr) bool {
				cl, ok := ast.Unparen(x).(*ast.CallExpr)
				return ok && len(cl.Args) == 1 && c41Codec[sfCallee(c2.fn.Info(), cl)] != "" && sfOperandIs(c2, cl.Args[0], pred)
			})
		}
		stopPart := func(nm string) bool { return nm == c41BS+".(*BlockStore).saveBlockPart" }
		seen := map[string]int{}
		for _, d := range sfDeepCalls(f, 2, stopPart, func(cx *sfCtx, st *engine.Site) bool { return st.CalleeName() == c41DBI+"Set" }) {
			kc, ok := ast.Unparen(d.arg(0)).(*ast.CallExpr)
			if !ok || len(kc.Args) == 0 {
				continue
			}
			switch nm := sfCallee(d.info(), kc); nm {
			case c41BS + ".calcBlockCommitKey":
				seen[nm]++
				n++
				c.Check("height-arg", f.Name+" block.LastCommit saved under height-1", d.where(),
					isHm1(d.ctx, kc.Args[0]) && valueFrom(d.ctx, d.arg(1), fieldOfParam("LastCommit", 0)),
					"LoadBlockCommit(h) must return the commit FOR block h, which travels in block h+1")
			case c41BS + ".calcSeenCommitKey":
				seen[nm]++
				n++
				c.Check("height-arg", f.Name+" seenCommit saved under height", d.where(),
					isH(d.ctx, kc.Args[0]) && valueFrom(d.ctx, d.arg(1), func(c2 *sfCtx, x ast.Expr) bool { return sfRootParam(c2, x) == 2 }), "")
			case c41BS + ".calcBlockMetaKey":
				seen[nm]++
				n++
				c.Check("height-arg", f.Name+" block meta saved under height", d.where(),
					isH(d.ctx, kc.Args[0]) && valueFrom(d.ctx, d.arg(1), func(c2 *sfCtx, x ast.Expr) bool {
						cl, isC := sfIsCallTo(c2.fn.Info(), x, "tm2/pkg/bft/types.NewBlockMeta")
						return isC && sfRootParam(c2, cl.Args[0]) == 0
					}), "")
			}
		}
		n++
		c.Check("height-arg", f.Name+" saves meta, commit and seen commit", f.Pos(), len(seen) == 3, "")
		// parts: saveBlockPart(height, i, blockParts.GetPart(i))
		for _, d := range sfDeepCallsTo(f, 2, c41BS+".(*BlockStore).saveBlockPart") {
			a := d.site.Call.Args
			iObj := engine.ObjOf(d.info(), a[1])
			ok := isH(d.ctx, a[0]) && iObj != nil && sfOperandIs(d.ctx, a[2], func(c2 *sfCtx, x ast.Expr) bool {
				cl, isC := sfIsCallTo(c2.fn.Info(), x, "tm2/pkg/bft/types.(*PartSet).GetPart")
				return isC && engine.ObjOf(c2.fn.Info(), cl.Args[0]) == iObj
			})
			n++
			c.Check("height-arg", f.Name+" part i saved under (height, i)", d.where(), ok, "")
		}
		// descriptor
		for _, d := range sfDeepCallsTo(f, 2, c41BS+".(BlockStoreStateJSON).Save") {
			ok := false
			ast.Inspect(d.site.Call.Fun, func(x ast.Node) bool {
				if kv, isKV := x.(*ast.KeyValueExpr); isKV {
					if id, isId := kv.Key.(*ast.Ident); isId && id.Name == "Height" && isH(d.ctx, kv.Value) {
						ok = true
					}
				}
				return true
			})
			n++
			c.Check("height-arg", f.Name+" descriptor records height", d.where(), ok, "")
		}
	}
	if f := c.MustFunc(c41BS + ".(*BlockStore).saveBlockPart"); f != nil {
		info := f.Info()
		for _, s := range f.CallsTo(c41DBI + "Set") {
			kc, ok := ast.Unparen(s.Call.Args[0]).(*ast.CallExpr)
			ok = ok && len(kc.Args) == 2 && sfIsParam(f, kc.Args[0], 0) && sfIsParam(f, kc.Args[1], 1)
			ok = ok && sfDerives(f, s.Call.Args[1], func(x ast.Expr) bool {
				cl, isC := ast.Unparen(x).(*ast.CallExpr)
				return isC && len(cl.Args) == 1 && c41Codec[sfCallee(info, cl)] != "" && sfIsParam(f, cl.Args[0], 2)
			}, 2)
			n++
			c.Check("height-arg", f.Name+" key (height,index), value part", s.Pos(), ok, "")
		}
	}
	// keyUnderParams: the key handed to the db call is <some calc…Key builder>(p_first, p_first+1, …) of the root function's parameters
	keyUnderParams := func(d sfDS, first int) bool {
		stopB := func(cx *sfCtx, cl *ast.CallExpr) bool {
			nm := sfCallee(cx.fn.Info(), cl)
			return strings.Contains(nm, ".calc") || strings.Contains(nm, ".Calc")
		}
		return sfAllLeafs(sfLeafs(d.ctx, d.arg(0), d.site, 4, stopB), func(l sfLeaf) bool {
			if l.e == nil {
				return false
			}
			kc, ok := ast.Unparen(l.e).(*ast.CallExpr)
			if !ok || len(kc.Args) == 0 || !stopB(l.ctx, kc) {
				return false
			}
			for i, a := range kc.Args {
				if sfRootParam(l.ctx, a) != first+i {
					return false
				}
			}
			return true
		})
	}
	dbCalls := func(f *engine.Fn, op string) []sfDS {
		return sfDeepCalls(f, 2, nil, func(cx *sfCtx, st *engine.Site) bool { return st.CalleeName() == c41DBI+op })
	}
	for _, nm := range []string{"LoadBlockMeta", "LoadBlockCommit", "LoadSeenCommit", "LoadBlockPart"} {
		f := c.MustFunc(c41BS + ".(*BlockStore)." + nm)
		if f == nil {
			continue
		}
		gets := dbCalls(f, "Get")
		if len(gets) == 0 {
			c.Undecided("height-arg", f.Name, "no db.Get found in the loader or its helpers")
		}
		for _, d := range gets {
			n++
			c.Check("height-arg", f.Name+" reads under its own parameters", d.where(), keyUnderParams(d, 0), "")
		}
	}
	if f := c.MustFunc(c41BS + ".(*BlockStore).LoadBlock"); f != nil {
		info := f.Info()
		ok := false
		for _, s := range f.CallsTo(c41BS + ".(*BlockStore).LoadBlockPart") {
			a := s.Call.Args
			// i ranges over blockMeta.BlockID.PartsHeader.Total
			engine.InspectBody(f, func(x ast.Node) {
				rs, isR := x.(*ast.RangeStmt)
				if isR && rs.Key != nil && engine.ObjOf(info, rs.Key) == engine.ObjOf(info, a[1]) && sfWithin(rs.Body, s.Node) {
					if se, isSel := ast.Unparen(rs.X).(*ast.SelectorExpr); isSel && se.Sel.Name == "Total" {
						ok = sfIsParam(f, a[0], 0)
					}
				}
			})
		}
		n++
		c.Check("height-arg", f.Name+" reassembles parts 0..Total-1 of the same height", f.Pos(), ok, "")
	}
	for _, nm := range []string{"loadValidatorsInfo", "loadConsensusParamsInfo", "LoadABCIResponses"} {
		f := c.MustFunc(c41ST + "." + nm)
		if f == nil {
			continue
		}
		for _, d := range dbCalls(f, "Get") {
			n++
			c.Check("height-arg", f.Name+" reads under its height parameter", d.where(), keyUnderParams(d, 1), "")
		}
	}
	for _, nm := range []string{"saveValidatorsInfo", "saveConsensusParamsInfo", "SaveABCIResponses"} {
		f := c.MustFunc(c41ST + "." + nm)
		if f == nil {
			continue
		}
		for _, d := range dbCalls(f, "Set") {
			n++
			c.Check("height-arg", f.Name+" writes under its height parameter", d.where(), keyUnderParams(d, 1), "")
		}
	}
	c.Floor("height-arg", n, 18)
}

// c41Contiguity: on every path to s either the store was empty (Height()==0)
// or `height == Height()+1` was established (the violating branch cannot reach s).
func c41Contiguity(f *engine.Fn, s *engine.Site, heightObj types.Object) (bool, string) {
	info := f.Info()
	g := f.Graph()
	isHeightCall := func(e ast.Expr) bool {
		cl, ok := ast.Unparen(e).(*ast.CallExpr)
		return ok && strings.HasSuffix(sfCallee(info, cl), ".(*BlockStore).Height")
	}
	isHp1 := func(e ast.Expr) bool {
		return sfDerives(f, e, func(x ast.Expr) bool {
			b, ok := ast.Unparen(x).(*ast.BinaryExpr)
			return ok && b.Op == token.ADD && isHeightCall(b.X) && sfIsIntLit(b.Y, "1")
		}, 2)
	}
	isHeight := func(e ast.Expr) bool {
		return sfDerives(f, e, func(x ast.Expr) bool { return engine.ObjOf(info, x) == heightObj }, 2)
	}
	isNEQ := func(e ast.Expr) bool {
		a, b, op, ok := sfCmp(e)
		return ok && op == token.NEQ && ((isHeight(a) && isHp1(b)) || (isHp1(a) && isHeight(b)))
	}
	isNonEmpty := func(e ast.Expr) bool {
		a, b, op, ok := sfCmp(e)
		return ok && op == token.NEQ && isHeightCall(a) && sfIsIntLit(b, "0")
	}
	// shape 1: single condition `Height() != 0 && height != Height()+1` on whose false branch s lies
	for _, gt := range g.Gates(s) {
		if gt.OnTrue {
			continue
		}
		cj := engine.Conjuncts(gt.Cond, token.LAND)
		if len(cj) == 2 && isNonEmpty(cj[0]) && isNEQ(cj[1]) {
			return true, "guarded by `" + engine.ExprString(gt.Cond) + "`"
		}
	}
	// shape 2: nested `if Height() != 0 { if g != w { panic } }`
	for _, outer := range g.CFG.Blocks {
		if !outer.Live || len(outer.Succs) != 2 || len(outer.Nodes) == 0 {
			continue
		}
		oc, ok := outer.Nodes[len(outer.Nodes)-1].(ast.Expr)
		if !ok || !isNonEmpty(oc) || !g.BlockDominates(outer, s.Block) {
			continue
		}
		for _, inner := range g.CFG.Blocks {
			if !inner.Live || len(inner.Succs) != 2 || len(inner.Nodes) == 0 {
				continue
			}
			ic, ok := inner.Nodes[len(inner.Nodes)-1].(ast.Expr)
			if !ok || !isNEQ(ic) {
				continue
			}
			// inner reachable only through outer's true edge, its true edge never reaches s, and outer's true edge reaches s only through inner
			if !(outer.Succs[0] == inner || g.BlockDominates(outer.Succs[0], inner)) {
				continue
			}
			if g.Reach(inner.Succs[0], s.Block, map[*sfCfgBlock]bool{inner: true}) {
				return false, "the non-contiguous branch can still reach the write"
			}
			if g.Reach(outer.Succs[0], s.Block, map[*sfCfgBlock]bool{inner: true}) {
				return false, "a non-empty store can reach the write without the contiguity test"
			}
			return true, "guarded by nested `" + engine.ExprString(oc) + "` / `" + engine.ExprString(ic) + "`"
		}
	}
	// shape 3: the guard lives in an error/bool helper whose success is tested here
	// (`if err := bs.checkContiguous(height); err != nil { panic }`): the helper's sole
	// success return must itself be guarded, with the helper's parameter standing for height.
	for _, gt := range g.Gates(s) {
		if !sfErrCmp(info, gt.Cond) {
			continue
		}
		a, b, op, _ := sfCmp(gt.Cond)
		if isNil(a) {
			a, b = b, a
		}
		_ = b
		if (op == token.EQL) != gt.OnTrue {
			continue // s is on the failing side
		}
		errObj := engine.ObjOf(info, a)
		defs, _ := sfDefs(f, errObj)
		for _, d := range defs {
			call, isCall := ast.Unparen(d).(*ast.CallExpr)
			if !isCall {
				continue
			}
			cs := f.SiteOf(call)
			fn, _ := engine.ObjOf(info, call.Fun).(*types.Func)
			h := f.Prog.FnOf(fn)
			if h == nil || h == f || cs == nil || !g.Dominates(cs, s) {
				continue
			}
			// sound import: exactly one `return nil`, every other return yields a freshly built error
			var succ []*ast.ReturnStmt
			sound := true
			for _, r := range sfReturns(h) {
				if len(r.Results) == 0 {
					sound = false
					continue
				}
				last := ast.Unparen(r.Results[len(r.Results)-1])
				switch x := last.(type) {
				case *ast.Ident:
					if isNil(x) {
						succ = append(succ, r)
					} else {
						sound = false
					}
				case *ast.CallExpr, *ast.CompositeLit, *ast.UnaryExpr:
				default:
					sound = false
				}
			}
			if !sound || len(succ) != 1 {
				continue
			}
			rs := h.SiteOf(succ[0])
			if rs == nil {
				continue
			}
			for i, arg := range call.Args {
				if !isHeight(arg) {
					continue
				}
				if hp := paramObj(h, i); hp != nil {
					if ok, why := c41Contiguity(h, rs, hp); ok {
						return true, "guarded inside " + h.Name + ": " + why
					}
				}
			}
		}
	}
	return false, "no `Height() != 0` + `height != Height()+1` guard with a no-return failing branch gates the write"
}

func c41SaveGuards(c *engine.Ctx, p *engine.Prog) {
	n := 0
	f := c.MustFunc(c41BS + ".(*BlockStore).SaveBlock")
	if f != nil {
		info := f.Info()
		var hObj types.Object
		engine.InspectBody(f, func(x ast.Node) {
			as, ok := x.(*ast.AssignStmt)
			if ok && as.Tok == token.DEFINE && len(as.Lhs) == 1 && len(as.Rhs) == 1 {
				if se, isSel := ast.Unparen(as.Rhs[0]).(*ast.SelectorExpr); isSel && se.Sel.Name == "Height" && engine.ObjOf(info, se.X) == paramObj(f, 0) {
					hObj = engine.ObjOf(info, as.Lhs[0])
				}
			}
		})
		var writes []*engine.Site
		innerLabel := map[*engine.Site]string{}
		stopW := func(nm string) bool {
			return nm == c41BS+".(*BlockStore).saveBlockPart" || nm == c41BS+".(BlockStoreStateJSON).Save"
		}
		for _, d := range sfDeepCalls(f, 2, stopW, func(cx *sfCtx, st *engine.Site) bool {
			return engine.MatchName(st.CalleeName(), c41DBI+"Set", c41DBI+"SetSync", c41BS+".(*BlockStore).saveBlockPart", c41BS+".(BlockStoreStateJSON).Save")
		}) {
			o := d.outer()
			if o == nil {
				continue
			}
			lb := d.callee()
			if len(d.site.Call.Args) > 0 {
				if kc, ok := ast.Unparen(d.arg(0)).(*ast.CallExpr); ok {
					lb += "(" + sfCallee(d.info(), kc) + ")"
				}
			}
			if _, dup := innerLabel[o]; !dup {
				writes = append(writes, o)
				innerLabel[o] = lb
			} else if d.direct() {
				innerLabel[o] = lb
			}
		}
		heightF := p.Field(c41BS + ".BlockStore.height")
		var hw *engine.Site
		heightWrite := map[*engine.Site]bool{}
		visitAssign := func(x ast.Node, at func(ast.Node) *engine.Site) {
			if as, ok := x.(*ast.AssignStmt); ok && len(as.Lhs) == 1 && sfFieldSel(info, as.Lhs[0], heightF) {
				hw = at(as)
				if hw != nil {
					heightWrite[hw] = true
				}
				n++
				c.Check("height-writer", f.Name+" publishes the validated height", as.Pos(), engine.ObjOf(info, as.Rhs[0]) == hObj && hObj != nil, "bs.height must be assigned the height that passed the contiguity test")
			}
		}
		engine.InspectBody(f, func(x ast.Node) { visitAssign(x, func(n ast.Node) *engine.Site { return f.SiteOf(n) }) })
		// … also inside function literals that are invoked on the spot (`func() { lock; defer unlock; bs.height = h }()`):
		// the write happens where the literal is called
		for _, l := range f.AllLits() {
			var callSite *engine.Site
			for _, cs := range f.Calls() {
				if cs.Call != nil && ast.Unparen(cs.Call.Fun) == ast.Expr(l.Lit) && !cs.Deferred && !cs.InGo {
					callSite = cs
				}
			}
			if callSite == nil {
				continue
			}
			engine.InspectBody(l, func(x ast.Node) { visitAssign(x, func(ast.Node) *engine.Site { return callSite }) })
		}
		if hw != nil {
			writes = append(writes, hw)
			// persisted descriptor first
			sv := f.CallsTo(c41BS + ".(BlockStoreStateJSON).Save")
			n++
			c.Check("height-writer", f.Name+" persists the descriptor before publishing the height", hw.Pos(), len(sv) >= 1 && f.Graph().Dominates(sv[0], hw), "")
		}
		for _, s := range writes {
			label := innerLabel[s]
			if s.Call == nil || heightWrite[s] {
				label = "bs.height ="
			}
			okC, whyC := c41Contiguity(f, s, hObj)
			n++
			c.Check("save-guards", f.Name+" contiguity before "+label, s.Pos(), okC, whyC)
			okP := sfHolds(f, s, true, func(e ast.Expr) bool {
				cl, ok := ast.Unparen(e).(*ast.CallExpr)
				return ok && sfCallee(info, cl) == "tm2/pkg/bft/types.(*PartSet).IsComplete"
			})
			n++
			c.Check("save-guards", f.Name+" IsComplete before "+label, s.Pos(), okP, "an incomplete part set must never be written")
			okN := sfHolds(f, s, false, func(e ast.Expr) bool {
				a, b, op, ok := sfCmp(e)
				return ok && op == token.EQL && isNil(b) && sfIsParam(f, a, 0)
			})
			n++
			c.Check("save-guards", f.Name+" nil block rejected before "+label, s.Pos(), okN, "")
		}
	}
	if f := c.MustFunc(c41BS + ".(*BlockStore).saveBlockPart"); f != nil {
		for _, s := range f.CallsTo(c41DBI + "Set") {
			okC, whyC := c41Contiguity(f, s, paramObj(f, 0))
			n++
			c.Check("save-guards", f.Name+" contiguity before the part write", s.Pos(), okC, whyC)
		}
	}
	c.Floor("save-guards", n, 20)
	// who writes BlockStore.height
	heightF := p.Field(c41BS + ".BlockStore.height")
	ws := engine.WriterSet(p.FieldWrites(heightF), nil)
	c.Check("height-writer", c41BS+".BlockStore.height writers", token.NoPos, heightF != nil && sfEq(ws, sfSorted(c41BS+".(*BlockStore).SaveBlock", c41BS+".NewBlockStore")), "writers: "+join(ws))
	c.Floor("height-writer", len(ws), 2)
}

func c41Checkpoint(c *engine.Ctx, p *engine.Prog) {
	n := 0
	interval := p.Object(c41ST + ".valSetCheckpointInterval")
	// x % valSetCheckpointInterval with x = root parameter `param`
	modInterval := func(cx *sfCtx, e ast.Expr, param int) bool {
		b, ok := ast.Unparen(e).(*ast.BinaryExpr)
		return ok && b.Op == token.REM && sfRootParam(cx, b.X) == param && engine.ObjOf(cx.fn.Info(), b.Y) == interval && interval != nil
	}
	paramsCmp := func(cx *sfCtx, e ast.Expr, op token.Token, p1, p2 int) bool {
		a, b, o, isC := sfCmp(e)
		if !isC || o != op {
			return false
		}
		x, y := sfRootParam(cx, a), sfRootParam(cx, b)
		return (x == p1 && y == p2) || (x == p2 && y == p1)
	}
	isZeroCmp := func(cx *sfCtx, e ast.Expr, op token.Token, inner func(*sfCtx, ast.Expr) bool) bool {
		a, b, o, isC := sfCmp(e)
		if !isC || o != op {
			return false
		}
		if k, isK := sfConstInt(cx.fn.Info(), b); isK && k == 0 {
			return inner(cx, a)
		}
		if k, isK := sfConstInt(cx.fn.Info(), a); isK && k == 0 {
			return inner(cx, b)
		}
		return false
	}
	if f := c.MustFunc(c41ST + ".saveValidatorsInfo"); f != nil {
		vsF := p.Field(c41ST + ".ValidatorsInfo.ValidatorSet")
		lhcF := p.Field(c41ST + ".ValidatorsInfo.LastHeightChanged")
		ok, found := false, 0
		for _, cx := range sfCtxs(sfRoot(f), 2, nil) {
			info := cx.fn.Info()
			cx := cx
			engine.InspectBody(cx.fn, func(x ast.Node) {
				as, isAs := x.(*ast.AssignStmt)
				if !isAs || len(as.Lhs) != 1 || !sfFieldSel(info, as.Lhs[0], vsF) {
					return
				}
				found++
				st := cx.fn.SiteOf(as)
				if st == nil || sfRootParam(cx, as.Rhs[0]) != 3 {
					return
				}
				// the store happens exactly when  height == lastHeightChanged || height%interval == 0
				for _, ft := range sfFactsAt(cx, st) {
					b, isB := ast.Unparen(ft.e).(*ast.BinaryExpr)
					if !isB {
						continue
					}
					var parts []ast.Expr
					eqOp := token.EQL
					switch {
					case ft.val && b.Op == token.LOR:
						parts = engine.Conjuncts(b, token.LOR)
					case !ft.val && b.Op == token.LAND:
						parts, eqOp = engine.Conjuncts(b, token.LAND), token.NEQ
					default:
						continue
					}
					if len(parts) != 2 {
						continue
					}
					eq, cp := false, false
					for _, d := range parts {
						dc, de := sfBoolResolve(ft.ctx, d)
						if paramsCmp(dc, de, eqOp, 1, 2) {
							eq = true
						}
						if isZeroCmp(dc, de, eqOp, func(c2 *sfCtx, y ast.Expr) bool { return modInterval(c2, y, 1) }) {
							cp = true
						}
					}
					if eq && cp {
						ok = true
					}
				}
			})
		}
		n++
		c.Check("checkpoint", f.Name+" stores the full set exactly at change or checkpoint heights", f.Pos(), ok && found == 1,
			"valInfo.ValidatorSet = valSet must be gated by `height == lastHeightChanged || height%valSetCheckpointInterval == 0`")
		// LastHeightChanged recorded
		rec := false
		info := f.Info()
		ast.Inspect(f.Body, func(x ast.Node) bool {
			if kv, isKV := x.(*ast.KeyValueExpr); isKV {
				if id, isId := kv.Key.(*ast.Ident); isId && info.Uses[id] == lhcF && sfIsParam(f, kv.Value, 2) {
					rec = true
				}
			}
			if as, isAs := x.(*ast.AssignStmt); isAs && len(as.Lhs) == 1 && sfFieldSel(info, as.Lhs[0], lhcF) && sfIsParam(f, as.Rhs[0], 2) {
				rec = true
			}
			return true
		})
		n++
		c.Check("checkpoint", f.Name+" records LastHeightChanged", f.Pos(), rec, "")
	}
	if f := c.MustFunc(c41ST + ".lastStoredHeightFor"); f != nil {
		root := sfRoot(f)
		ok := false
		for _, r := range sfReturns(f) {
			cl, isC := sfIsCallTo(f.Info(), r.Results[0], "builtin.max")
			if !isC || len(cl.Args) != 2 {
				continue
			}
			isCk := func(e ast.Expr) bool {
				return sfOperandIs(root, e, func(c2 *sfCtx, x ast.Expr) bool {
					b, isB := ast.Unparen(x).(*ast.BinaryExpr)
					return isB && b.Op == token.SUB && sfRootParam(c2, b.X) == 0 && modInterval(c2, b.Y, 0)
				})
			}
			if (isCk(cl.Args[0]) && sfRootParam(root, cl.Args[1]) == 1) || (isCk(cl.Args[1]) && sfRootParam(root, cl.Args[0]) == 1) {
				ok = true
			}
		}
		n++
		c.Check("checkpoint", f.Name+" = max(height - height%interval, lastHeightChanged)", f.Pos(), ok, "the loader must look where the saver stored the latest full set (same interval constant)")
	}
	if f := c.MustFunc(c41ST + ".LoadValidators"); f != nil {
		lhcF := p.Field(c41ST + ".ValidatorsInfo.LastHeightChanged")
		vsF := p.Field(c41ST + ".ValidatorsInfo.ValidatorSet")
		const lshFor = c41ST + ".lastStoredHeightFor"
		stopL := func(cx *sfCtx, cl *ast.CallExpr) bool { return sfCallee(cx.fn.Info(), cl) == lshFor }
		// isStoredHeight: lastStoredHeightFor(<height>, <….LastHeightChanged>)
		isStoredHeight := func(l sfLeaf) bool {
			if l.e == nil {
				return false
			}
			cl, ok := sfIsCallTo(l.ctx.fn.Info(), l.e, lshFor)
			return ok && len(cl.Args) == 2 && sfRootParam(l.ctx, cl.Args[0]) == 1 && sfOperandIs(l.ctx, cl.Args[1], sfIsField(lhcF))
		}
		isLHC := func(l sfLeaf) bool { return l.e != nil && sfFieldSel(l.ctx.fn.Info(), l.e, lhcF) }
		setIsNil := func(facts []sfFact) bool {
			m := func(op token.Token) func(*sfCtx, ast.Expr) bool {
				return func(cx *sfCtx, e ast.Expr) bool {
					a, b, o, isC := sfCmp(e)
					return isC && o == op && isNil(b) && sfOperandIs(cx, a, sfIsField(vsF))
				}
			}
			return sfKnown(facts, true, m(token.EQL)) || sfKnown(facts, false, m(token.NEQ))
		}
		loads := sfDeepCallsTo(f, 3, c41ST+".loadValidatorsInfo")
		direct, indirect := 0, 0
		for _, d := range loads {
			if d.rootParam(1) == 1 {
				direct++
				continue
			}
			leaves := sfLeafs(d.ctx, d.arg(1), d.site, 5, stopL)
			if sfAllLeafs(leaves, func(l sfLeaf) bool { return isStoredHeight(l) }) && setIsNil(d.facts()) {
				indirect++
			}
		}
		n++
		c.Check("checkpoint", f.Name+" follows the checkpoint/LastHeightChanged pointer when the set is absent", f.Pos(), direct >= 1 && indirect >= 1,
			"when the entry at `height` holds no set, the set must be loaded at lastStoredHeightFor(height, LastHeightChanged)")
		inc := sfDeepCallsTo(f, 3, "tm2/pkg/bft/types.(*ValidatorSet).IncrementProposerPriority")
		ok := len(inc) >= 1
		for _, d := range inc {
			good := false
			ast.Inspect(d.arg(0), func(x ast.Node) bool {
				b, isB := x.(*ast.BinaryExpr)
				if !isB || b.Op != token.SUB || sfRootParam(d.ctx, b.X) != 1 {
					return true
				}
				leaves := sfLeafs(d.ctx, b.Y, d.site, 6, stopL)
				stored := false
				all := sfAllLeafs(leaves, func(l sfLeaf) bool {
					if isStoredHeight(l) {
						stored = true
						return true
					}
					return isLHC(l) // legacy fallback: the set loaded at LastHeightChanged itself
				})
				if all && stored {
					good = true
				}
				return true
			})
			ok = ok && good && setIsNil(d.facts())
		}
		n++
		c.Check("checkpoint", f.Name+" advances proposer priority by height - storedHeight", f.Pos(), ok, "the set loaded from an earlier height must be advanced by exactly the height difference")
	}
	if f := c.MustFunc(c41ST + ".saveConsensusParamsInfo"); f != nil {
		cpF := p.Field(c41ST + ".ConsensusParamsInfo.ConsensusParams")
		ok := false
		for _, cx := range sfCtxs(sfRoot(f), 2, nil) {
			info := cx.fn.Info()
			cx := cx
			engine.InspectBody(cx.fn, func(x ast.Node) {
				as, isAs := x.(*ast.AssignStmt)
				if !isAs || len(as.Lhs) != 1 || !sfFieldSel(info, as.Lhs[0], cpF) || sfRootParam(cx, as.Rhs[0]) != 3 {
					return
				}
				st := cx.fn.SiteOf(as)
				if st == nil {
					return
				}
				facts := sfAtomicFacts(sfFactsAt(cx, st))
				good := len(facts) >= 1
				for _, ft := range facts {
					if id, isId := ast.Unparen(ft.e).(*ast.Ident); isId && sfSingleDef(ft.ctx.fn, ft.ctx.fn.Info().ObjectOf(id)) != nil {
						continue
					}
					if !(paramsCmp(ft.ctx, ft.e, token.EQL, 1, 2) && ft.val) && !(paramsCmp(ft.ctx, ft.e, token.NEQ, 1, 2) && !ft.val) {
						good = false
					}
				}
				ok = good
			})
		}
		n++
		c.Check("checkpoint", f.Name+" stores full params exactly at the change height", f.Pos(), ok, "")
	}
	if f := c.MustFunc(c41ST + ".LoadConsensusParams"); f != nil {
		lhcF := p.Field(c41ST + ".ConsensusParamsInfo.LastHeightChanged")
		direct, indirect := 0, 0
		for _, d := range sfDeepCallsTo(f, 3, c41ST+".loadConsensusParamsInfo") {
			switch {
			case d.rootParam(1) == 1:
				direct++
			case sfOperandIs(d.ctx, d.arg(1), sfIsField(lhcF)):
				indirect++
			}
		}
		n++
		c.Check("checkpoint", f.Name+" follows LastHeightChanged when params are absent", f.Pos(), direct >= 1 && indirect >= 1, "")
	}
	c.Floor("checkpoint", n, 7)
}

func c41SaveState(c *engine.Ctx, p *engine.Prog) {
	f := c.MustFunc(c41ST + ".saveState")
	if f == nil {
		return
	}
	n := 0
	fieldNamed := func(name string) func(*sfCtx, ast.Expr) bool {
		return func(cx *sfCtx, x ast.Expr) bool {
			fld := sfSelField(cx.fn.Info(), x)
			return fld != nil && fld.Name() == name
		}
	}
	// nextHeight = state.LastBlockHeight + 1 (through locals / helper parameters)
	isNH := func(cx *sfCtx, e ast.Expr) bool {
		return sfOperandIs(cx, e, func(c2 *sfCtx, x ast.Expr) bool {
			b, ok := ast.Unparen(x).(*ast.BinaryExpr)
			if !ok || b.Op != token.ADD {
				return false
			}
			k, isK := sfConstInt(c2.fn.Info(), b.Y)
			return isK && k == 1 && sfOperandIs(c2, b.X, fieldNamed("LastBlockHeight"))
		})
	}
	isNHp1 := func(cx *sfCtx, e ast.Expr) bool {
		return sfOperandIs(cx, e, func(c2 *sfCtx, x ast.Expr) bool {
			b, ok := ast.Unparen(x).(*ast.BinaryExpr)
			if !ok || b.Op != token.ADD || !isNH(c2, b.X) {
				return false
			}
			k, isK := sfConstInt(c2.fn.Info(), b.Y)
			return isK && k == 1
		})
	}
	isField := func(cx *sfCtx, e ast.Expr, name string) bool { return sfOperandIs(cx, e, fieldNamed(name)) }
	// first block: nextHeight == state.InitialHeight
	firstBlock := func(op token.Token) func(*sfCtx, ast.Expr) bool {
		return func(cx *sfCtx, e ast.Expr) bool {
			a, b, o, ok := sfCmp(e)
			if !ok || o != op {
				return false
			}
			return (isNH(cx, a) && isField(cx, b, "InitialHeight")) || (isNH(cx, b) && isField(cx, a, "InitialHeight"))
		}
	}
	isFirst := func(facts []sfFact) int {
		switch {
		case sfKnown(facts, true, firstBlock(token.EQL)) || sfKnown(facts, false, firstBlock(token.NEQ)):
			return 1
		case sfKnown(facts, false, firstBlock(token.EQL)) || sfKnown(facts, true, firstBlock(token.NEQ)):
			return -1
		}
		return 0
	}
	// A call saveX(db, height, changeHeight, value) is judged per possible origin of its
	// changeHeight argument, so that one call with a selected argument equals two calls in branches.
	nextVals, firstVals, firstParams, laterParams, bad := 0, 0, 0, 0, ""
	for _, d := range sfDeepCallsTo(f, 2, c41ST+".saveValidatorsInfo") {
		base := d.facts()
		for _, l := range sfLeafs(d.ctx, d.arg(2), d.site, 5, nil) {
			facts := append(append([]sfFact{}, base...), l.facts...)
			switch {
			case l.e != nil && isNHp1(d.ctx, d.arg(1)) && fieldNamed("LastHeightValidatorsChanged")(l.ctx, l.e) && isField(d.ctx, d.arg(3), "NextValidators") && isFirst(facts) == 0:
				nextVals++
			case l.e != nil && isNH(d.ctx, d.arg(1)) && isNH(l.ctx, l.e) && isField(d.ctx, d.arg(3), "Validators") && isFirst(facts) == 1:
				firstVals++
			default:
				bad = "saveValidatorsInfo(" + engine.ExprString(d.arg(1)) + ", " + c22Expr(l.e) + ", " + engine.ExprString(d.arg(3)) + ")"
			}
		}
	}
	for _, d := range sfDeepCallsTo(f, 2, c41ST+".saveConsensusParamsInfo") {
		base := d.facts()
		for _, l := range sfLeafs(d.ctx, d.arg(2), d.site, 5, nil) {
			facts := append(append([]sfFact{}, base...), l.facts...)
			switch {
			case l.e != nil && isNH(d.ctx, d.arg(1)) && isNH(l.ctx, l.e) && isField(d.ctx, d.arg(3), "ConsensusParams") && isFirst(facts) == 1:
				firstParams++
			case l.e != nil && isNH(d.ctx, d.arg(1)) && fieldNamed("LastHeightConsensusParamsChanged")(l.ctx, l.e) && isField(d.ctx, d.arg(3), "ConsensusParams") && isFirst(facts) != 1:
				laterParams++
			default:
				bad = "saveConsensusParamsInfo(" + engine.ExprString(d.arg(1)) + ", " + c22Expr(l.e) + ", " + engine.ExprString(d.arg(3)) + ")"
			}
		}
	}
	n++
	c.Check("save-state", f.Name+" only the expected validator/params records are written", f.Pos(), bad == "", "unexpected: "+bad)
	n++
	c.Check("save-state", f.Name+" next validators under nextHeight+1", f.Pos(), nextVals >= 1, "validator changes take effect with one block delay: NextValidators (with LastHeightValidatorsChanged) belongs to nextHeight+1, on every block")
	n++
	c.Check("save-state", f.Name+" first block stores full validators and params at nextHeight", f.Pos(), firstVals >= 1 && firstParams >= 1, "")
	n++
	c.Check("save-state", f.Name+" later blocks store params (or pointer) at nextHeight", f.Pos(), laterParams >= 1, "")
	// the state itself is written last, synced
	ss := sfDeepCalls(f, 2, nil, func(cx *sfCtx, st *engine.Site) bool {
		return st.CalleeName() == c41DBI+"SetSync" && sfRootParam(cx, st.Call.Args[0]) == 2
	})
	ok := len(ss) == 1
	if ok {
		for _, d := range sfDeepCallsTo(f, 2, c41ST+".saveValidatorsInfo", c41ST+".saveConsensusParamsInfo") {
			ok = ok && sfReachAfterDS(d, ss[0]) && !sfReachAfterDS(ss[0], d)
		}
	}
	n++
	c.Check("save-state", f.Name+" state record written last with SetSync", f.Pos(), ok, "validators/params of the next heights must be on disk before the state that refers to them")
	c.Floor("save-state", n, 5)
}
