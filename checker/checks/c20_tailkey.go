package checks

import (
	"go/ast"
	"go/token"

	"golang.org/x/tools/go/cfg"

	"gnoverif/engine"
)

// C20 extra — a decoder loop never reads the next field key from an exhausted
// buffer. In the amino binary decoders a loop iteration consumes a field
// (slide(&bz, …)) and, at its tail, decodes the key of the next field to decide
// whether to continue. When the consumed field was the last one on the wire the
// buffer is empty and that is a normal end of message, not an error: between the
// last consumption and the key decode there must be a `len(bz) == 0` exit (or the
// decode must sit under `len(bz) > 0`). A loop-head test does not count, because
// the buffer shrinks inside the iteration. (Added after an independently seeded
// change folded the in-loop guard of the reflection decoder's reserved-field
// skip loop into the loop condition: the reflection decoder then rejected bytes
// the generated decoder accepts.)
func init() {
	extend("C20", c20TailKey)
	mutants("C20",
		Mutant{"reserved-skip-guard-hoisted", "tm2/pkg/amino/binary_decode.go", "				if len(bz) == 0 {\n\t\t\t\t\tbreak\n\t\t\t\t}\n\t\t\t\tfnum, typ, _n, err = decodeFieldNumberAndTyp3(bz)\n\t\t\t\tif err != nil {\n\t\t\t\t\treturn\n\t\t\t\t}\n\t\t\t}\n\t\t\tif fnum != field.BinFieldNum {", "				fnum, typ, _n, err = decodeFieldNumberAndTyp3(bz)\n\t\t\t\tif err != nil {\n\t\t\t\t\treturn\n\t\t\t\t}\n\t\t\t}\n\t\t\tif fnum != field.BinFieldNum {", "tail-key-guarded"},
	)
}

func c20TailKey(c *engine.Ctx) {
	p := progWith(c, "tm2/pkg/amino")
	if p == nil {
		return
	}
	n := 0
	for _, f := range p.FuncsIn("tm2/pkg/amino") {
		info := f.Info()
		g := f.Graph()
		decodes := f.CallsTo("tm2/pkg/amino.decodeFieldNumberAndTyp3")
		if len(decodes) == 0 {
			continue
		}
		slides := f.CallsTo("tm2/pkg/amino.slide")
		for _, d := range decodes {
			if len(d.Call.Args) != 1 {
				continue
			}
			buf := engine.ObjOf(info, d.Call.Args[0])
			if buf == nil {
				continue
			}
			// innermost loop containing the decode
			var loop ast.Node
			var body *ast.BlockStmt
			engine.InspectBody(f, func(x ast.Node) {
				var b *ast.BlockStmt
				switch l := x.(type) {
				case *ast.ForStmt:
					b = l.Body
				case *ast.RangeStmt:
					b = l.Body
				}
				if b != nil && containsExpr(b, d.Node) {
					if loop == nil || containsExpr(loop, x) {
						loop, body = x, b
					}
				}
			})
			if loop == nil {
				continue
			}
			// a slide on the same buffer earlier in the same iteration
			var lastSlides []*engine.Site
			for _, s := range slides {
				if !containsExpr(body, s.Node) || len(s.Call.Args) < 1 {
					continue
				}
				u, ok := ast.Unparen(s.Call.Args[0]).(*ast.UnaryExpr)
				if !ok || u.Op != token.AND || engine.ObjOf(info, u.X) != buf {
					continue
				}
				if g.ReachableAfterInIteration(s, d) {
					lastSlides = append(lastSlides, s)
				}
			}
			if len(lastSlides) == 0 {
				continue
			}
			n++
			// a gate of the decode that tests len(buf) and sits after every such slide
			ok := false
			for _, gt := range g.Gates(d) {
				for _, a := range engine.Atoms(gt.Cond) {
					b, isB := ast.Unparen(a).(*ast.BinaryExpr)
					if !isB || !engine.IsLenOf(info, b.X, buf) {
						continue
					}
					nonEmptyAtTarget := false
					switch {
					case b.Op == token.EQL && !gt.OnTrue, b.Op == token.GTR && gt.OnTrue, b.Op == token.NEQ && gt.OnTrue:
						nonEmptyAtTarget = true
					}
					if !nonEmptyAtTarget {
						continue
					}
					// a loop-head test does not count: the buffer shrinks inside the iteration
					if (gt.Block.Kind == cfg.KindForLoop || gt.Block.Kind == cfg.KindRangeLoop) && gt.Block.Stmt != nil && containsExpr(gt.Block.Stmt, d.Node) {
						continue
					}
					after := true
					for _, s := range lastSlides {
						gs := f.SiteOf(gt.Cond)
						if gs == nil || !g.ReachableAfterInIteration(s, gs) {
							after = false
						}
					}
					if after {
						ok = true
					}
				}
			}
			c.Check("tail-key-guarded", f.Root().Name+" next-key decode after consuming from "+buf.Name(), d.Pos(), ok,
				"the loop consumes from `"+buf.Name()+"` and then decodes the next field key without an intervening `len("+buf.Name()+") == 0` exit: a message that ends with the consumed field is rejected ('buffer too small') instead of ending normally")
		}
	}
	c.Floor("tail-key-guarded", n, 1)
}
