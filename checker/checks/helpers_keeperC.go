package checks

import (
	"go/ast"
	"go/token"
	"go/types"
	"sort"
	"strings"

	"golang.org/x/tools/go/cfg"

	"gnoverif/engine"
)

// Helpers of keeperC (C08, C09, C13, C14, C16). All names are prefixed kc.

// kcAt records an obligation with the position rendered by the Prog that owns
// it (a check may hold several Progs: .gno + Go).
func kcAt(c *engine.Ctx, p *engine.Prog, rule, key string, pos token.Pos, ok bool, detail string) bool {
	return c.CheckAt(rule, key, p.Pos(pos), ok, detail)
}

// kcFunc resolves an anchored function in a given Prog or records UNDECIDED.
func kcFunc(c *engine.Ctx, p *engine.Prog, name string) *engine.Fn {
	f := p.Func(name)
	if f == nil {
		c.Undecided("anchor", name, "anchored function not found in the loaded packages (renamed or moved?)")
	}
	return f
}

// kcFact is an atomic condition with the truth value it is guaranteed to have
// whenever the target executes.
type kcFact struct {
	Expr ast.Expr
	Val  bool
}

// kcFacts lists the atomic conditions guaranteed at target: for a gate reached
// on its true branch every &&-conjunct holds, on its false branch every
// ||-disjunct fails; leading ! is stripped (flipping the value).
func kcFacts(g *engine.Graph, target *engine.Site) []kcFact {
	var out []kcFact
	for _, gt := range g.Gates(target) {
		var atoms []ast.Expr
		if gt.OnTrue {
			atoms = engine.Conjuncts(gt.Cond, token.LAND)
		} else {
			atoms = engine.Conjuncts(gt.Cond, token.LOR)
		}
		for _, a := range atoms {
			v := gt.OnTrue
			a = ast.Unparen(a)
			for {
				u, ok := a.(*ast.UnaryExpr)
				if !ok || u.Op != token.NOT {
					break
				}
				a = ast.Unparen(u.X)
				v = !v
			}
			out = append(out, kcFact{a, v})
		}
	}
	return out
}

// kcGateConds returns the full gate conditions with polarity (for rules that
// need the exact composition of a compound condition).
func kcGateConds(g *engine.Graph, target *engine.Site) []engine.Gate { return g.Gates(target) }

// kcCmp decomposes a fact into a comparison `x op y` normalised for the
// fact's truth value (a false `x != y` becomes `x == y`).
func kcCmp(f kcFact) (x, y ast.Expr, op token.Token, ok bool) {
	b, isb := ast.Unparen(f.Expr).(*ast.BinaryExpr)
	if !isb {
		return nil, nil, token.ILLEGAL, false
	}
	op = b.Op
	if !f.Val {
		op = engine.Negate(op)
	}
	if op == token.ILLEGAL {
		return nil, nil, op, false
	}
	return ast.Unparen(b.X), ast.Unparen(b.Y), op, true
}

// kcIsCallTo reports whether e is a call whose resolved callee name (or, for
// unresolved .gno imports, written text) matches.
func kcIsCallTo(info *types.Info, e ast.Expr, names ...string) *ast.CallExpr {
	call, ok := ast.Unparen(e).(*ast.CallExpr)
	if !ok {
		return nil
	}
	txt := types.ExprString(call.Fun)
	var rn string
	switch f := ast.Unparen(call.Fun).(type) {
	case *ast.Ident:
		if fn, ok := info.Uses[f].(*types.Func); ok {
			rn = engine.FuncName(fn)
		}
	case *ast.SelectorExpr:
		if fn, ok := info.Uses[f.Sel].(*types.Func); ok {
			rn = engine.FuncName(fn)
		}
	}
	for _, n := range names {
		if n == rn || n == txt {
			return call
		}
	}
	return nil
}

// kcSelOf reports whether e is `<base>.<field>` with base resolving to baseObj.
func kcSelOf(info *types.Info, e ast.Expr, baseObj types.Object, field string) bool {
	se, ok := ast.Unparen(e).(*ast.SelectorExpr)
	if !ok || se.Sel.Name != field {
		return false
	}
	return baseObj != nil && engine.ObjOf(info, se.X) == baseObj && kcIsIdent(se.X)
}

func kcIsIdent(e ast.Expr) bool {
	_, ok := ast.Unparen(e).(*ast.Ident)
	return ok
}

// kcRecv returns the receiver object of a method Fn.
func kcRecv(f *engine.Fn) types.Object {
	if f.Decl == nil || f.Decl.Recv == nil || len(f.Decl.Recv.List) == 0 || len(f.Decl.Recv.List[0].Names) == 0 {
		return nil
	}
	return f.Info().ObjectOf(f.Decl.Recv.List[0].Names[0])
}

// kcParam returns the parameter object by name.
func kcParam(f *engine.Fn, name string) types.Object {
	for _, fld := range f.Type.Params.List {
		for _, nm := range fld.Names {
			if nm.Name == name {
				return f.Info().ObjectOf(nm)
			}
		}
	}
	return nil
}

// kcParamIndex returns the index of a parameter object, or -1.
func kcParamIndex(f *engine.Fn, o types.Object) int {
	k := 0
	for _, fld := range f.Type.Params.List {
		for _, nm := range fld.Names {
			if f.Info().ObjectOf(nm) == o {
				return k
			}
			k++
		}
	}
	return -1
}

// kcStripConv strips conversions T(x) (one argument, callee is a type) and parens.
func kcStripConv(info *types.Info, e ast.Expr) ast.Expr {
	for {
		e = ast.Unparen(e)
		call, ok := e.(*ast.CallExpr)
		if !ok || len(call.Args) != 1 {
			return e
		}
		if tv, ok := info.Types[call.Fun]; ok && tv.IsType() {
			e = call.Args[0]
			continue
		}
		return e
	}
}

// kcDefs returns every expression assigned to the local variable obj inside f
// (including nested literals): `x := e`, `x = e`, `var x = e`. A multi-value
// assignment from one call yields that call. ok=false when obj is assigned by
// a form that is not understood (range, &x, x++ ...).
func kcDefs(f *engine.Fn, obj types.Object) (rhs []ast.Expr, ok bool) {
	ok = true
	info := f.Info()
	root := f.Root()
	ast.Inspect(root.Body, func(n ast.Node) bool {
		switch x := n.(type) {
		case *ast.AssignStmt:
			for i, l := range x.Lhs {
				if id, isid := ast.Unparen(l).(*ast.Ident); isid && info.ObjectOf(id) == obj {
					if len(x.Lhs) == len(x.Rhs) {
						if x.Tok != token.ASSIGN && x.Tok != token.DEFINE {
							ok = false
						}
						rhs = append(rhs, x.Rhs[i])
					} else if len(x.Rhs) == 1 {
						rhs = append(rhs, x.Rhs[0])
					} else {
						ok = false
					}
				}
			}
		case *ast.ValueSpec:
			for i, id := range x.Names {
				if info.ObjectOf(id) == obj {
					if i < len(x.Values) {
						rhs = append(rhs, x.Values[i])
					} else if len(x.Values) == 1 {
						rhs = append(rhs, x.Values[0])
					}
				}
			}
		case *ast.RangeStmt:
			for _, l := range []ast.Expr{x.Key, x.Value} {
				if id, isid := l.(*ast.Ident); isid && info.ObjectOf(id) == obj {
					ok = false
				}
			}
		case *ast.IncDecStmt:
			if id, isid := ast.Unparen(x.X).(*ast.Ident); isid && info.ObjectOf(id) == obj {
				ok = false
			}
		case *ast.UnaryExpr:
			if x.Op == token.AND {
				if id, isid := ast.Unparen(x.X).(*ast.Ident); isid && info.ObjectOf(id) == obj {
					ok = false
				}
			}
		}
		return true
	})
	return rhs, ok
}

// kcSingleDef returns the one defining expression of a local variable, or nil.
func kcSingleDef(f *engine.Fn, obj types.Object) ast.Expr {
	rhs, ok := kcDefs(f, obj)
	if !ok || len(rhs) != 1 {
		return nil
	}
	return rhs[0]
}

// kcResolveSel follows single-definition locals until an expression that is
// not a plain local identifier is reached (max 4 steps), stripping conversions.
func kcResolve(f *engine.Fn, e ast.Expr) ast.Expr {
	info := f.Info()
	for i := 0; i < 4; i++ {
		e = kcStripConv(info, e)
		id, ok := e.(*ast.Ident)
		if !ok {
			return e
		}
		v, ok := info.ObjectOf(id).(*types.Var)
		if !ok || v.IsField() || kcParamIndex(f.Root(), v) >= 0 || kcParamIndex(f, v) >= 0 {
			return e
		}
		d := kcSingleDef(f, v)
		if d == nil {
			return e
		}
		e = d
	}
	return e
}

// kcNormalExits returns pseudo-sites located at the end of every live block
// through which f returns normally (return statement or falling off the end).
func kcNormalExits(f *engine.Fn) []*engine.Site {
	g := f.Graph()
	var out []*engine.Site
	for _, b := range g.CFG.Blocks {
		if !b.Live || len(b.Succs) != 0 {
			continue
		}
		if n := len(b.Nodes); n > 0 {
			if es, ok := b.Nodes[n-1].(*ast.ExprStmt); ok {
				if call, ok := es.X.(*ast.CallExpr); ok && !f.Prog.MayReturn(f.Info(), call) {
					continue
				}
			}
		}
		var node ast.Node = f.Body
		if n := len(b.Nodes); n > 0 {
			node = b.Nodes[n-1]
		}
		out = append(out, &engine.Site{Fn: f, Node: node, Block: b, Idx: len(b.Nodes), Ord: 1 << 30, Top: node})
	}
	return out
}

// kcMustFollow reports whether every path from site a to a normal exit of the
// function executes site b (b post-dominates a w.r.t. normal exits).
func kcMustFollow(f *engine.Fn, a, b *engine.Site) bool {
	g := f.Graph()
	if a.Block == b.Block {
		return a.Idx < b.Idx || (a.Idx == b.Idx && a.Ord <= b.Ord)
	}
	avoid := map[*cfg.Block]bool{b.Block: true}
	for _, ex := range kcNormalExits(f) {
		if ex.Block == a.Block {
			return false
		}
		for _, s := range a.Block.Succs {
			if g.Reach(s, ex.Block, avoid) {
				return false
			}
		}
	}
	return true
}

// kcMethodRefs returns every reference to a method with one of the given
// names whose receiver is the concrete named type impl, a pointer to it, or
// any interface that impl (or *impl) implements — i.e. every way of reaching
// impl's method statically, including through narrowed interfaces.
func kcMethodRefs(p *engine.Prog, impl *types.Named, names ...string) []engine.Ref {
	want := map[string]bool{}
	for _, n := range names {
		want[n] = true
	}
	return p.RefsTo(func(o types.Object) bool {
		fn, ok := o.(*types.Func)
		if !ok || !want[fn.Name()] {
			return false
		}
		sig, _ := fn.Type().(*types.Signature)
		if sig == nil || sig.Recv() == nil {
			return false
		}
		t := sig.Recv().Type()
		if pt, ok := t.(*types.Pointer); ok {
			t = pt.Elem()
		}
		t = types.Unalias(t)
		if n, ok := t.(*types.Named); ok && n.Origin() == impl.Origin() {
			return true
		}
		if it, ok := t.Underlying().(*types.Interface); ok {
			// the interface must declare the method and impl must provide a
			// method of that name with an identical signature
			return kcHasSameMethod(impl, fn) && (types.Implements(impl, it) || types.Implements(types.NewPointer(impl), it))
		}
		return false
	})
}

// kcHasSameMethod: impl (or *impl) has a method with fn's name and an
// identical signature (so a call through the interface may dispatch to it).
func kcHasSameMethod(impl *types.Named, fn *types.Func) bool {
	ms := types.NewMethodSet(types.NewPointer(impl))
	for i := 0; i < ms.Len(); i++ {
		m, ok := ms.At(i).Obj().(*types.Func)
		if !ok || m.Name() != fn.Name() {
			continue
		}
		a, _ := m.Type().(*types.Signature)
		b, _ := fn.Type().(*types.Signature)
		if a == nil || b == nil {
			continue
		}
		if types.Identical(types.NewSignatureType(nil, nil, nil, a.Params(), a.Results(), a.Variadic()),
			types.NewSignatureType(nil, nil, nil, b.Params(), b.Results(), b.Variadic())) {
			return true
		}
	}
	return false
}

// kcCallerTable checks that the root functions referencing some construct are
// a subset of allow, and that every name in must occurs.
func kcCallerTable(c *engine.Ctx, p *engine.Prog, rule, key string, refs []engine.Ref, allow, must []string) {
	callers := engine.CallerSet(refs)
	extra := engine.SetDiff(callers, allow)
	kcAt(c, p, rule, key, token.NoPos, len(extra) == 0, "referenced from "+join(callers)+"; not in the confirmed table: "+join(extra))
	missing := engine.SetDiff(must, callers)
	if len(missing) > 0 {
		c.Undecided(rule, key+" (expected referrers)", "confirmed referrer(s) no longer present: "+join(missing)+" — table out of date")
	}
}

// kcInTestSupport reports whether a function lives in a file that only
// supports tests (test_common.go, testutils...), by package path or file name.
func kcInTestSupport(p *engine.Prog, f *engine.Fn) bool {
	if f == nil {
		return false
	}
	file := p.Fset.Position(f.Pos()).Filename
	base := file[strings.LastIndexByte(file, '/')+1:]
	return strings.HasPrefix(base, "test_") || strings.HasSuffix(base, "_testing.go") || strings.Contains(f.Pkg.PkgPath, "/testutils") || strings.Contains(f.Pkg.PkgPath, "/gnovm/tests/")
}

// kcFilterRefs drops references located in test-support code.
func kcFilterRefs(p *engine.Prog, refs []engine.Ref) []engine.Ref {
	var out []engine.Ref
	for _, r := range refs {
		if r.Fn != nil && kcInTestSupport(p, r.Fn) {
			continue
		}
		out = append(out, r)
	}
	return out
}

// kcClauseOf returns the constant names of the switch clause of f containing
// the node (innermost expression switch whose tag resolves to tagObj), and
// whether such a clause exists.
func kcClauseOf(f *engine.Fn, n ast.Node, tagObj types.Object) (names []string, isDefault, found bool) {
	for _, sw := range f.Switches() {
		if sw.Tag == nil || engine.ObjOf(f.Info(), sw.Tag) != tagObj || sw.Types != nil {
			continue
		}
		ss, ok := sw.Stmt.(*ast.SwitchStmt)
		if !ok {
			continue
		}
		for _, cl := range ss.Body.List {
			cc := cl.(*ast.CaseClause)
			if !(cc.Pos() <= n.Pos() && n.End() <= cc.End()) {
				continue
			}
			if cc.List == nil {
				return nil, true, true
			}
			for k, v := range sw.Consts {
				if v == cc {
					names = append(names, k)
				}
			}
			sort.Strings(names)
			return names, false, true
		}
	}
	return nil, false, false
}

// kcArg returns the i-th argument of a call site or nil.
func kcArg(s *engine.Site, i int) ast.Expr {
	if s.Call == nil || i >= len(s.Call.Args) {
		return nil
	}
	return s.Call.Args[i]
}

// kcSameObj reports whether both expressions (after stripping conversions)
// are identifiers resolving to the same object.
func kcSameObj(info *types.Info, a, b ast.Expr) bool {
	if a == nil || b == nil {
		return false
	}
	a, b = kcStripConv(info, a), kcStripConv(info, b)
	ia, ok1 := a.(*ast.Ident)
	ib, ok2 := b.(*ast.Ident)
	if !ok1 || !ok2 {
		return false
	}
	oa, ob := info.ObjectOf(ia), info.ObjectOf(ib)
	return oa != nil && oa == ob
}

// kcStrLit returns the value of a basic string literal expression.
func kcStrLit(info *types.Info, e ast.Expr) (string, bool) {
	if tv, ok := info.Types[ast.Unparen(e)]; ok && tv.Value != nil && tv.Value.Kind().String() == "String" {
		s := tv.Value.ExactString()
		if len(s) >= 2 {
			return s[1 : len(s)-1], true
		}
	}
	if bl, ok := ast.Unparen(e).(*ast.BasicLit); ok && bl.Kind == token.STRING && len(bl.Value) >= 2 {
		return bl.Value[1 : len(bl.Value)-1], true
	}
	return "", false
}

// kcConcatParts flattens a + b + c.
func kcConcatParts(e ast.Expr) []ast.Expr {
	e = ast.Unparen(e)
	if b, ok := e.(*ast.BinaryExpr); ok && b.Op == token.ADD {
		return append(kcConcatParts(b.X), kcConcatParts(b.Y)...)
	}
	return []ast.Expr{e}
}

// kcTopPanicFacts recognises the idiom
//
//	func f(...) { if bad { ...; m.PanicString(..) }; ...; return v }
//
// for no-return helpers that live in a package loaded only as a dependency
// (so the engine cannot compute their no-return-ness and the CFG keeps the
// fall-through edge). For a normal exit that is a top-level return statement
// of f's body it returns the facts "every ||-disjunct of bad is false" for each
// preceding top-level `if bad {…}` (no else, no init) whose body ends in a
// call to one of the named functions. The named functions must be verified
// no-return elsewhere (C13 does so in the thorough tier) .
func kcTopPanicFacts(f *engine.Fn, exit *engine.Site, noRet ...string) []kcFact {
	var out []kcFact
	idx := -1
	for i, st := range f.Body.List {
		if st == exit.Node {
			idx = i
		}
	}
	if idx < 0 {
		return nil
	}
	for _, st := range f.Body.List[:idx] {
		is, ok := st.(*ast.IfStmt)
		if !ok || is.Else != nil || is.Init != nil || len(is.Body.List) == 0 {
			continue
		}
		es, ok := is.Body.List[len(is.Body.List)-1].(*ast.ExprStmt)
		if !ok {
			continue
		}
		call, ok := es.X.(*ast.CallExpr)
		if !ok || kcIsCallTo(f.Info(), call, noRet...) == nil {
			continue
		}
		for _, a := range engine.Conjuncts(is.Cond, token.LOR) {
			v := false
			a = ast.Unparen(a)
			for {
				u, ok := a.(*ast.UnaryExpr)
				if !ok || u.Op != token.NOT {
					break
				}
				a = ast.Unparen(u.X)
				v = !v
			}
			out = append(out, kcFact{a, v})
		}
	}
	return out
}

// kcMustFollowOK is kcMustFollow restricted to successful exits: returns whose
// last result is the literal nil (or functions without results). Error
// returns abort the enclosing operation and need not run b.
func kcMustFollowOK(f *engine.Fn, a, b *engine.Site) bool {
	g := f.Graph()
	if a.Block == b.Block && (a.Idx < b.Idx || (a.Idx == b.Idx && a.Ord <= b.Ord)) {
		return true
	}
	avoid := map[*cfg.Block]bool{b.Block: true}
	for _, ex := range kcNormalExits(f) {
		if rs, ok := ex.Node.(*ast.ReturnStmt); ok && len(rs.Results) > 0 && !isNil(rs.Results[len(rs.Results)-1]) {
			continue
		}
		if ex.Block == a.Block {
			return false
		}
		for _, s := range a.Block.Succs {
			if g.Reach(s, ex.Block, avoid) {
				return false
			}
		}
	}
	return true
}

// ---- role resolution of the ante closure's locals (by definition, not by name)

// kcSessionMapObj: the local map published with
// ctx.WithValue(std.SessionAccountsContextKey{}, X) inside f.
func kcSessionMapObj(f *engine.Fn) types.Object {
	var out types.Object
	info := f.Info()
	engine.InspectBody(f, func(n ast.Node) {
		call, ok := n.(*ast.CallExpr)
		if !ok || len(call.Args) != 2 {
			return
		}
		if se, ok := call.Fun.(*ast.SelectorExpr); !ok || se.Sel.Name != "WithValue" {
			return
		}
		if engine.TypeName(info.TypeOf(call.Args[0])) != "tm2/pkg/std.SessionAccountsContextKey" {
			return
		}
		if o := engine.ObjOf(info, call.Args[1]); o != nil && kcIsIdent(call.Args[1]) {
			out = o
		}
	})
	return out
}

// kcIsSignersSlice: obj's single definition is a call <x>.GetSigners().
func kcIsSignersSlice(f *engine.Fn, obj types.Object) bool {
	if obj == nil {
		return false
	}
	d, ok := ast.Unparen(kcSingleDef(f, obj)).(*ast.CallExpr)
	if !ok || d == nil {
		return false
	}
	se, ok := d.Fun.(*ast.SelectorExpr)
	return ok && se.Sel.Name == "GetSigners"
}

// kcIsSignerAccs: obj is defined as make([]std.Account, len(S)) with S a
// signers slice (the accounts resolved position-wise for the signers).
func kcIsSignerAccs(f *engine.Fn, obj types.Object) bool {
	if obj == nil {
		return false
	}
	info := f.Info()
	var mk *ast.CallExpr
	rhs, _ := kcDefs(f, obj)
	for _, r := range rhs {
		if c, ok := ast.Unparen(r).(*ast.CallExpr); ok && engine.IsBuiltinCall(info, c, "make") {
			mk = c
		}
	}
	if mk == nil || len(mk.Args) < 2 {
		return false
	}
	lc, ok := ast.Unparen(mk.Args[1]).(*ast.CallExpr)
	if !ok || !engine.IsBuiltinCall(info, lc, "len") {
		return false
	}
	return kcIsSignersSlice(f, engine.ObjOf(info, lc.Args[0]))
}
