package checks

import (
	"go/ast"
	"go/constant"
	"go/token"
	"go/types"
	"sort"
	"strings"

	"golang.org/x/tools/go/cfg"

	"gnoverif/engine"
)

// Helpers of keeperC (C08, C09, C13, C14, C16). All names are prefixed kc.

// kcAt records an obligation with the position rendered by the Prog that owns
// it (a check may hold several Progs: .gno + Go).
func kcAt(c *engine.Ctx, p *engine.Prog, rule, key string, pos token.Pos, ok bool, detail string) bool {
	return c.CheckAt(rule, key, p.Pos(pos), ok, detail)
}

// kcFunc resolves an anchored function in a given Prog or records UNDECIDED.
func kcFunc(c *engine.Ctx, p *engine.Prog, name string) *engine.Fn {
	f := p.Func(name)
	if f == nil {
		c.Undecided("anchor", name, "anchored function not found in the loaded packages (renamed or moved?)")
	}
	return f
}

// kcFact is an atomic condition with the truth value it is guaranteed to have
// whenever the target executes.
type kcFact struct {
	Expr ast.Expr
	Val  bool
}

// kcFacts lists the atomic conditions guaranteed at target: for a gate reached
// on its true branch every &&-conjunct holds, on its false branch every
// ||-disjunct fails; leading ! is stripped (flipping the value). Conditions are
// first made helper-transparent (kcExpandCond): a call of a pure boolean helper
// is replaced by its return expression in the caller's terms and a plain
// single-definition boolean local by its definition. Every comparison is also
// listed with its operands swapped, so matchers need only one orientation.
func kcFacts(g *engine.Graph, target *engine.Site) []kcFact {
	return kcFactsOfGates(g.Fn, g.Gates(target))
}

func kcFactsOfGates(fn *engine.Fn, gates []engine.Gate) []kcFact {
	var out []kcFact
	for _, gt := range gates {
		full := gt.Full()
		exp := kcExpandCond(fn, full, 3)
		out = append(out, kcSplitFacts(exp, gt.OnTrue)...)
		if engine.ExprString(exp) != engine.ExprString(full) {
			// keep the facts in their written form as well
			out = append(out, kcSplitFacts(full, gt.OnTrue)...)
		}
	}
	return out
}

// kcSplitFacts splits a condition known to have value val into atomic facts.
func kcSplitFacts(e ast.Expr, val bool) []kcFact {
	e = ast.Unparen(e)
	if u, ok := e.(*ast.UnaryExpr); ok && u.Op == token.NOT {
		return kcSplitFacts(u.X, !val)
	}
	if b, ok := e.(*ast.BinaryExpr); ok {
		if (b.Op == token.LAND && val) || (b.Op == token.LOR && !val) {
			return append(kcSplitFacts(b.X, val), kcSplitFacts(b.Y, val)...)
		}
		switch b.Op {
		case token.LSS, token.GTR, token.LEQ, token.GEQ, token.EQL, token.NEQ:
			return []kcFact{{e, val}, {&ast.BinaryExpr{X: b.Y, OpPos: b.OpPos, Op: engine.Flip(b.Op), Y: b.X}, val}}
		}
	}
	return []kcFact{{e, val}}
}

// kcGates returns the gates of target with helper-transparent conditions.
func kcGates(g *engine.Graph, target *engine.Site) []engine.Gate {
	gs := g.Gates(target)
	out := make([]engine.Gate, len(gs))
	for i, gt := range gs {
		out[i] = engine.Gate{Cond: kcExpandCond(g.Fn, gt.Full(), 3), OnTrue: gt.OnTrue, Block: gt.Block}
	}
	return out
}

// kcPlainDef: the defining expression of a local that is defined exactly once
// by a one-to-one assignment (`x := e`, `var x = e`), never a comma-ok/multi
// value form.
func kcPlainDef(f *engine.Fn, obj types.Object) ast.Expr {
	if obj == nil {
		return nil
	}
	rhs, ok := kcDefs(f, obj)
	if !ok || len(rhs) != 1 {
		return nil
	}
	info := f.Info()
	plain := false
	ast.Inspect(f.Root().Body, func(n ast.Node) bool {
		switch x := n.(type) {
		case *ast.AssignStmt:
			if len(x.Lhs) == len(x.Rhs) {
				for i, l := range x.Lhs {
					if id, isID := ast.Unparen(l).(*ast.Ident); isID && info.ObjectOf(id) == obj && x.Rhs[i] == rhs[0] {
						plain = true
					}
				}
			}
		case *ast.ValueSpec:
			if len(x.Names) == len(x.Values) {
				for i, id := range x.Names {
					if info.ObjectOf(id) == obj && x.Values[i] == rhs[0] {
						plain = true
					}
				}
			}
		}
		return true
	})
	if !plain {
		return nil
	}
	return rhs[0]
}

// kcPureBoolHelper: h's body is a sequence of plain local definitions followed
// by a single `return E`; returns E and the substitution of h's locals.
func kcPureReturn(h *engine.Fn) (ast.Expr, bool) {
	if h == nil || h.Body == nil || len(h.Body.List) == 0 {
		return nil, false
	}
	for _, st := range h.Body.List[:len(h.Body.List)-1] {
		as, ok := st.(*ast.AssignStmt)
		if !ok || as.Tok != token.DEFINE || len(as.Lhs) != len(as.Rhs) {
			return nil, false
		}
	}
	rs, ok := h.Body.List[len(h.Body.List)-1].(*ast.ReturnStmt)
	if !ok || len(rs.Results) != 1 {
		return nil, false
	}
	return rs.Results[0], true
}

// kcBindCall maps the parameters (and receiver) of h to the argument
// expressions of call, and h's plain single-definition locals to their
// (substituted) definitions, so that expressions of h can be rewritten in the
// caller's terms.
func kcBindCall(h *engine.Fn, call *ast.CallExpr, outer map[types.Object]ast.Expr) map[types.Object]ast.Expr {
	m := map[types.Object]ast.Expr{}
	info := h.Info()
	kcSubstInfo2 = info
	k := 0
	if h.Type != nil && h.Type.Params != nil {
		for _, fld := range h.Type.Params.List {
			for _, nm := range fld.Names {
				if k < len(call.Args) {
					if o := info.ObjectOf(nm); o != nil {
						m[o] = kcSubst(call.Args[k], outer)
					}
				}
				k++
			}
		}
	}
	if r := kcRecv(h); r != nil {
		if se, ok := ast.Unparen(call.Fun).(*ast.SelectorExpr); ok {
			m[r] = kcSubst(se.X, outer)
		}
	}
	// locals in source order
	ast.Inspect(h.Body, func(n ast.Node) bool {
		if _, isLit := n.(*ast.FuncLit); isLit {
			return false
		}
		if as, ok := n.(*ast.AssignStmt); ok && as.Tok == token.DEFINE && len(as.Lhs) == len(as.Rhs) {
			for i, l := range as.Lhs {
				if id, isID := l.(*ast.Ident); isID {
					o := info.ObjectOf(id)
					if o != nil && kcPlainDef(h, o) == as.Rhs[i] {
						m[o] = kcSubst(as.Rhs[i], m)
					}
				}
			}
		}
		return true
	})
	return m
}

var kcSubstInfo, kcSubstInfo2 *types.Info

// kcSubst clones e replacing identifiers bound in m by their expressions.
// Leaves are shared with the original tree, so type information of leaves and
// of callee identifiers stays available.
func kcSubst(e ast.Expr, m map[types.Object]ast.Expr) ast.Expr {
	if e == nil || len(m) == 0 {
		return e
	}
	switch x := e.(type) {
	case *ast.Ident:
		for _, inf := range []*types.Info{kcSubstInfo, kcSubstInfo2} {
			if inf == nil {
				continue
			}
			if o := inf.ObjectOf(x); o != nil {
				if r, ok := m[o]; ok {
					return r
				}
			}
		}
		return x
	case *ast.ParenExpr:
		return &ast.ParenExpr{Lparen: x.Lparen, X: kcSubst(x.X, m), Rparen: x.Rparen}
	case *ast.BinaryExpr:
		return &ast.BinaryExpr{X: kcSubst(x.X, m), OpPos: x.OpPos, Op: x.Op, Y: kcSubst(x.Y, m)}
	case *ast.UnaryExpr:
		return &ast.UnaryExpr{OpPos: x.OpPos, Op: x.Op, X: kcSubst(x.X, m)}
	case *ast.StarExpr:
		return &ast.StarExpr{Star: x.Star, X: kcSubst(x.X, m)}
	case *ast.SelectorExpr:
		return &ast.SelectorExpr{X: kcSubst(x.X, m), Sel: x.Sel}
	case *ast.IndexExpr:
		return &ast.IndexExpr{X: kcSubst(x.X, m), Lbrack: x.Lbrack, Index: kcSubst(x.Index, m), Rbrack: x.Rbrack}
	case *ast.SliceExpr:
		return &ast.SliceExpr{X: kcSubst(x.X, m), Lbrack: x.Lbrack, Low: kcSubst(x.Low, m), High: kcSubst(x.High, m), Max: kcSubst(x.Max, m), Slice3: x.Slice3, Rbrack: x.Rbrack}
	case *ast.TypeAssertExpr:
		return &ast.TypeAssertExpr{X: kcSubst(x.X, m), Lparen: x.Lparen, Type: x.Type, Rparen: x.Rparen}
	case *ast.CallExpr:
		args := make([]ast.Expr, len(x.Args))
		for i, a := range x.Args {
			args[i] = kcSubst(a, m)
		}
		fun := x.Fun
		if se, ok := fun.(*ast.SelectorExpr); ok {
			fun = &ast.SelectorExpr{X: kcSubst(se.X, m), Sel: se.Sel}
		}
		return &ast.CallExpr{Fun: fun, Lparen: x.Lparen, Args: args, Ellipsis: x.Ellipsis, Rparen: x.Rparen}
	}
	return e
}

// kcExpandCond makes a boolean condition of fn helper-transparent: calls of
// pure boolean helpers of the loaded program are replaced by their return
// expression in fn's terms, plain single-definition boolean locals by their
// definitions; &&, || and ! are traversed.
func kcExpandCond(fn *engine.Fn, e ast.Expr, depth int) ast.Expr {
	if e == nil || depth < 0 {
		return e
	}
	info := fn.Info()
	kcSubstInfo = info
	switch x := ast.Unparen(e).(type) {
	case *ast.BinaryExpr:
		if x.Op == token.LAND || x.Op == token.LOR {
			return &ast.BinaryExpr{X: kcExpandCond(fn, x.X, depth), OpPos: x.OpPos, Op: x.Op, Y: kcExpandCond(fn, x.Y, depth)}
		}
	case *ast.UnaryExpr:
		if x.Op == token.NOT {
			return &ast.UnaryExpr{OpPos: x.OpPos, Op: x.Op, X: kcExpandCond(fn, x.X, depth)}
		}
	case *ast.Ident:
		if v, ok := info.ObjectOf(x).(*types.Var); ok && !v.IsField() && kcParamIndex(fn, v) < 0 && kcParamIndex(fn.Root(), v) < 0 {
			if b, isB := v.Type().Underlying().(*types.Basic); isB && b.Kind() == types.Bool {
				if d := kcPlainDef(fn, v); d != nil && depth > 0 {
					return kcExpandCond(fn, d, depth-1)
				}
			}
		}
	case *ast.CallExpr:
		if depth == 0 {
			return e
		}
		var callee *types.Func
		switch f := ast.Unparen(x.Fun).(type) {
		case *ast.Ident:
			callee, _ = info.Uses[f].(*types.Func)
		case *ast.SelectorExpr:
			callee, _ = info.Uses[f.Sel].(*types.Func)
		}
		h := fn.Prog.FnOf(callee)
		if h == nil || h == fn {
			return e
		}
		// only private helpers of the same package are looked through: an exported or
		// foreign predicate (std.IsRealmDenom, …) is a named fact in its own right and
		// must read the same whether or not its package happens to be loaded with syntax
		if callee.Exported() || h.Pkg != fn.Pkg {
			return e
		}
		sig, _ := callee.Type().(*types.Signature)
		if sig == nil || sig.Results().Len() != 1 {
			return e
		}
		if b, isB := sig.Results().At(0).Type().Underlying().(*types.Basic); !isB || b.Kind() != types.Bool {
			return e
		}
		ret, ok := kcPureReturn(h)
		if !ok {
			return e
		}
		m := kcBindCall(h, x, nil)
		kcSubstInfo = info
		inner := kcSubst(ret, m)
		// the substituted expression may itself contain helper calls written in h
		return kcExpandCond(fn, inner, depth-1)
	}
	return e
}

// kcDeep describes an inner site reached through helpers, with the means to
// express the helper's expressions in the analysed function's terms.
type kcDeep struct {
	engine.DeepSite
	F    *engine.Fn
	bind map[types.Object]ast.Expr // inner function's params/locals -> outer terms (nil when direct)
}

// kcDeepCalls finds calls (direct or through in-program helpers, depth 2).
func kcDeepCalls(f *engine.Fn, pats ...string) []kcDeep {
	var out []kcDeep
	for _, ds := range f.DeepCallsTo(2, pats...) {
		out = append(out, kcMakeDeep(f, ds))
	}
	return out
}

func kcMakeDeep(f *engine.Fn, ds engine.DeepSite) kcDeep {
	d := kcDeep{DeepSite: ds, F: f}
	if ds.Inner == ds.Outer || len(ds.Chain) == 0 {
		return d
	}
	kcSubstInfo = f.Info()
	var m map[types.Object]ast.Expr
	call := ds.Outer.Call
	for i, h := range ds.Chain {
		if call == nil {
			break
		}
		m = kcBindCall(h, call, m)
		if i+1 < len(ds.Chain) {
			call = nil
			for _, s := range h.Calls() {
				if fn, _ := s.Callee.(*types.Func); fn != nil && h.Prog.FnOf(fn) == ds.Chain[i+1] {
					call = s.Call
					break
				}
			}
		}
	}
	d.bind = m
	return d
}

// Arg returns the i-th argument of the inner call in the outer function's terms.
func (d kcDeep) Arg(i int) ast.Expr {
	a := kcArg(d.Inner, i)
	if a == nil {
		return nil
	}
	kcSubstInfo = d.F.Info()
	return kcSubst(a, d.bind)
}

// Expr rewrites an expression of the inner function in the outer function's terms.
func (d kcDeep) Expr(e ast.Expr) ast.Expr {
	kcSubstInfo = d.F.Info()
	return kcSubst(e, d.bind)
}

// Facts returns the facts guaranteed at the inner site: those at the outer
// site in F plus those inside each helper of the chain, rewritten in F's terms.
func (d kcDeep) Facts() []kcFact {
	out := kcFacts(d.F.Graph(), d.Outer)
	if d.Inner == d.Outer || len(d.Chain) == 0 {
		return out
	}
	kcSubstInfo = d.F.Info()
	var m map[types.Object]ast.Expr
	call := d.Outer.Call
	for i, h := range d.Chain {
		if call == nil {
			break
		}
		m = kcBindCall(h, call, m)
		var next *engine.Site
		if i+1 < len(d.Chain) {
			for _, s := range h.Calls() {
				if fn, _ := s.Callee.(*types.Func); fn != nil && h.Prog.FnOf(fn) == d.Chain[i+1] {
					next = s
					break
				}
			}
		} else {
			next = d.Inner
		}
		if next == nil {
			break
		}
		for _, ft := range kcFacts(h.Graph(), next) {
			kcSubstInfo = d.F.Info()
			out = append(out, kcFact{kcSubst(ft.Expr, m), ft.Val})
		}
		call = next.Call
	}
	return out
}

// kcGateConds returns the full gate conditions with polarity (for rules that
// need the exact composition of a compound condition).
func kcGateConds(g *engine.Graph, target *engine.Site) []engine.Gate { return g.Gates(target) }

// kcCmp decomposes a fact into a comparison `x op y` normalised for the
// fact's truth value (a false `x != y` becomes `x == y`).
func kcCmp(f kcFact) (x, y ast.Expr, op token.Token, ok bool) {
	b, isb := ast.Unparen(f.Expr).(*ast.BinaryExpr)
	if !isb {
		return nil, nil, token.ILLEGAL, false
	}
	op = b.Op
	if !f.Val {
		op = engine.Negate(op)
	}
	if op == token.ILLEGAL {
		return nil, nil, op, false
	}
	return ast.Unparen(b.X), ast.Unparen(b.Y), op, true
}

// kcIsCallTo reports whether e is a call whose resolved callee name (or, for
// unresolved .gno imports, written text) matches.
func kcIsCallTo(info *types.Info, e ast.Expr, names ...string) *ast.CallExpr {
	call, ok := ast.Unparen(e).(*ast.CallExpr)
	if !ok {
		return nil
	}
	txt := types.ExprString(call.Fun)
	var rn string
	switch f := ast.Unparen(call.Fun).(type) {
	case *ast.Ident:
		if fn, ok := info.Uses[f].(*types.Func); ok {
			rn = engine.FuncName(fn)
		}
	case *ast.SelectorExpr:
		if fn, ok := info.Uses[f.Sel].(*types.Func); ok {
			rn = engine.FuncName(fn)
		}
	}
	for _, n := range names {
		if n == rn || n == txt {
			return call
		}
	}
	return nil
}

// kcSelOf reports whether e is `<base>.<field>` with base resolving to baseObj.
func kcSelOf(info *types.Info, e ast.Expr, baseObj types.Object, field string) bool {
	se, ok := ast.Unparen(e).(*ast.SelectorExpr)
	if !ok || se.Sel.Name != field {
		return false
	}
	return baseObj != nil && engine.ObjOf(info, se.X) == baseObj && kcIsIdent(se.X)
}

func kcIsIdent(e ast.Expr) bool {
	_, ok := ast.Unparen(e).(*ast.Ident)
	return ok
}

// kcRecv returns the receiver object of a method Fn.
func kcRecv(f *engine.Fn) types.Object {
	if f.Decl == nil || f.Decl.Recv == nil || len(f.Decl.Recv.List) == 0 || len(f.Decl.Recv.List[0].Names) == 0 {
		return nil
	}
	return f.Info().ObjectOf(f.Decl.Recv.List[0].Names[0])
}

// kcParam returns the parameter object by name.
func kcParam(f *engine.Fn, name string) types.Object {
	for _, fld := range f.Type.Params.List {
		for _, nm := range fld.Names {
			if nm.Name == name {
				return f.Info().ObjectOf(nm)
			}
		}
	}
	return nil
}

// kcParamIndex returns the index of a parameter object, or -1.
func kcParamIndex(f *engine.Fn, o types.Object) int {
	k := 0
	for _, fld := range f.Type.Params.List {
		for _, nm := range fld.Names {
			if f.Info().ObjectOf(nm) == o {
				return k
			}
			k++
		}
	}
	return -1
}

// kcStripConv strips conversions T(x) (one argument, callee is a type) and parens.
func kcStripConv(info *types.Info, e ast.Expr) ast.Expr {
	for {
		e = ast.Unparen(e)
		call, ok := e.(*ast.CallExpr)
		if !ok || len(call.Args) != 1 {
			return e
		}
		if tv, ok := info.Types[call.Fun]; ok && tv.IsType() {
			e = call.Args[0]
			continue
		}
		return e
	}
}

// kcDefs returns every expression assigned to the local variable obj inside f
// (including nested literals): `x := e`, `x = e`, `var x = e`. A multi-value
// assignment from one call yields that call. ok=false when obj is assigned by
// a form that is not understood (range, &x, x++ ...).
func kcDefs(f *engine.Fn, obj types.Object) (rhs []ast.Expr, ok bool) {
	ok = true
	info := f.Info()
	root := f.Root()
	ast.Inspect(root.Body, func(n ast.Node) bool {
		switch x := n.(type) {
		case *ast.AssignStmt:
			for i, l := range x.Lhs {
				if id, isid := ast.Unparen(l).(*ast.Ident); isid && info.ObjectOf(id) == obj {
					if len(x.Lhs) == len(x.Rhs) {
						if x.Tok != token.ASSIGN && x.Tok != token.DEFINE {
							ok = false
						}
						rhs = append(rhs, x.Rhs[i])
					} else if len(x.Rhs) == 1 {
						rhs = append(rhs, x.Rhs[0])
					} else {
						ok = false
					}
				}
			}
		case *ast.ValueSpec:
			for i, id := range x.Names {
				if info.ObjectOf(id) == obj {
					if i < len(x.Values) {
						rhs = append(rhs, x.Values[i])
					} else if len(x.Values) == 1 {
						rhs = append(rhs, x.Values[0])
					}
				}
			}
		case *ast.RangeStmt:
			for _, l := range []ast.Expr{x.Key, x.Value} {
				if id, isid := l.(*ast.Ident); isid && info.ObjectOf(id) == obj {
					ok = false
				}
			}
		case *ast.IncDecStmt:
			if id, isid := ast.Unparen(x.X).(*ast.Ident); isid && info.ObjectOf(id) == obj {
				ok = false
			}
		case *ast.UnaryExpr:
			if x.Op == token.AND {
				if id, isid := ast.Unparen(x.X).(*ast.Ident); isid && info.ObjectOf(id) == obj {
					ok = false
				}
			}
		}
		return true
	})
	return rhs, ok
}

// kcSingleDef returns the one defining expression of a local variable, or nil.
func kcSingleDef(f *engine.Fn, obj types.Object) ast.Expr {
	rhs, ok := kcDefs(f, obj)
	if !ok || len(rhs) != 1 {
		return nil
	}
	return rhs[0]
}

// kcResolveSel follows single-definition locals until an expression that is
// not a plain local identifier is reached (max 4 steps), stripping conversions.
func kcResolve(f *engine.Fn, e ast.Expr) ast.Expr {
	info := f.Info()
	for i := 0; i < 4; i++ {
		e = kcStripConv(info, e)
		id, ok := e.(*ast.Ident)
		if !ok {
			return e
		}
		v, ok := info.ObjectOf(id).(*types.Var)
		if !ok || v.IsField() || kcParamIndex(f.Root(), v) >= 0 || kcParamIndex(f, v) >= 0 {
			return e
		}
		d := kcSingleDef(f, v)
		if d == nil {
			return e
		}
		e = d
	}
	return e
}

// kcNormalExits returns pseudo-sites located at the end of every live block
// through which f returns normally (return statement or falling off the end).
func kcNormalExits(f *engine.Fn) []*engine.Site {
	g := f.Graph()
	var out []*engine.Site
	for _, b := range g.CFG.Blocks {
		if !b.Live || len(b.Succs) != 0 {
			continue
		}
		if n := len(b.Nodes); n > 0 {
			if es, ok := b.Nodes[n-1].(*ast.ExprStmt); ok {
				if call, ok := es.X.(*ast.CallExpr); ok && !f.Prog.MayReturn(f.Info(), call) {
					continue
				}
			}
		}
		var node ast.Node = f.Body
		if n := len(b.Nodes); n > 0 {
			node = b.Nodes[n-1]
		}
		out = append(out, &engine.Site{Fn: f, Node: node, Block: b, Idx: len(b.Nodes), Ord: 1 << 30, Top: node})
	}
	return out
}

// kcMustFollow reports whether every path from site a to a normal exit of the
// function executes site b (b post-dominates a w.r.t. normal exits).
func kcMustFollow(f *engine.Fn, a, b *engine.Site) bool {
	g := f.Graph()
	if a.Block == b.Block {
		return a.Idx < b.Idx || (a.Idx == b.Idx && a.Ord <= b.Ord)
	}
	avoid := map[*cfg.Block]bool{b.Block: true}
	for _, ex := range kcNormalExits(f) {
		if ex.Block == a.Block {
			return false
		}
		for _, s := range a.Block.Succs {
			if g.Reach(s, ex.Block, avoid) {
				return false
			}
		}
	}
	return true
}

// kcMethodRefs returns every reference to a method with one of the given
// names whose receiver is the concrete named type impl, a pointer to it, or
// any interface that impl (or *impl) implements — i.e. every way of reaching
// impl's method statically, including through narrowed interfaces.
func kcMethodRefs(p *engine.Prog, impl *types.Named, names ...string) []engine.Ref {
	want := map[string]bool{}
	for _, n := range names {
		want[n] = true
	}
	return p.RefsTo(func(o types.Object) bool {
		fn, ok := o.(*types.Func)
		if !ok || !want[fn.Name()] {
			return false
		}
		sig, _ := fn.Type().(*types.Signature)
		if sig == nil || sig.Recv() == nil {
			return false
		}
		t := sig.Recv().Type()
		if pt, ok := t.(*types.Pointer); ok {
			t = pt.Elem()
		}
		t = types.Unalias(t)
		if n, ok := t.(*types.Named); ok && n.Origin() == impl.Origin() {
			return true
		}
		if it, ok := t.Underlying().(*types.Interface); ok {
			// the interface must declare the method and impl must provide a
			// method of that name with an identical signature
			return kcHasSameMethod(impl, fn) && (types.Implements(impl, it) || types.Implements(types.NewPointer(impl), it))
		}
		return false
	})
}

// kcHasSameMethod: impl (or *impl) has a method with fn's name and an
// identical signature (so a call through the interface may dispatch to it).
func kcHasSameMethod(impl *types.Named, fn *types.Func) bool {
	ms := types.NewMethodSet(types.NewPointer(impl))
	for i := 0; i < ms.Len(); i++ {
		m, ok := ms.At(i).Obj().(*types.Func)
		if !ok || m.Name() != fn.Name() {
			continue
		}
		a, _ := m.Type().(*types.Signature)
		b, _ := fn.Type().(*types.Signature)
		if a == nil || b == nil {
			continue
		}
		if types.Identical(types.NewSignatureType(nil, nil, nil, a.Params(), a.Results(), a.Variadic()),
			types.NewSignatureType(nil, nil, nil, b.Params(), b.Results(), b.Variadic())) {
			return true
		}
	}
	return false
}

// kcCallerTable checks that the root functions referencing some construct are
// a subset of allow, and that every name in must occurs.
func kcCallerTable(c *engine.Ctx, p *engine.Prog, rule, key string, refs []engine.Ref, allow, must []string) {
	callers := engine.CallerSet(refs)
	extra := kcUnacceptedCallers(p, callers, allow)
	kcAt(c, p, rule, key, token.NoPos, len(extra) == 0, "referenced from "+join(callers)+"; not in the confirmed table: "+join(extra))
	var missing []string
	for _, m := range engine.SetDiff(must, callers) {
		// an expected referrer that no longer exists (inlined into its caller, renamed) is
		// not a failure; only one that exists and stopped reaching the construct is
		if len(callers) == 0 || p.Func(m) == nil {
			continue
		}
		if !kcReachesAny(p, m, callers, 3) {
			missing = append(missing, m)
		}
	}
	if len(missing) > 0 {
		c.Undecided(rule, key+" (expected referrers)", "confirmed referrer(s) no longer present: "+join(missing)+" — table out of date")
	}
}

// kcUnacceptedCallers returns the callers that are neither in the confirmed
// table nor unexported helpers all of whose own referrers are (transitively)
// in the table — extracting a block of an allowed function into an unexported
// helper of the same package does not widen who may reach the construct.
func kcUnacceptedCallers(p *engine.Prog, callers, allow []string) []string {
	ok := map[string]bool{}
	for _, a := range allow {
		ok[a] = true
	}
	var accept func(name string, depth int, busy map[string]bool) bool
	accept = func(name string, depth int, busy map[string]bool) bool {
		if ok[name] {
			return true
		}
		if depth == 0 || busy[name] {
			return false
		}
		f := p.Func(name)
		if f == nil || f.Obj == nil || f.Obj.Exported() {
			return false
		}
		busy[name] = true
		defer delete(busy, name)
		refs := p.RefsTo(func(o types.Object) bool { return o == types.Object(f.Obj) })
		if len(refs) == 0 {
			return false
		}
		for _, r := range refs {
			if r.Fn == nil {
				return false
			}
			if r.Fn.Root() == f {
				continue // recursion
			}
			if !accept(r.Fn.Root().Name, depth-1, busy) {
				return false
			}
		}
		return true
	}
	var extra []string
	for _, cl := range callers {
		if !accept(cl, 3, map[string]bool{}) {
			extra = append(extra, cl)
		}
	}
	return extra
}

// kcReachesAny: function `from` statically calls (within depth) one of the named functions.
func kcReachesAny(p *engine.Prog, from string, targets []string, depth int) bool {
	tg := map[string]bool{}
	for _, t := range targets {
		tg[t] = true
	}
	seen := map[*engine.Fn]bool{}
	var walk func(f *engine.Fn, d int) bool
	walk = func(f *engine.Fn, d int) bool {
		if f == nil || seen[f] || d < 0 {
			return false
		}
		seen[f] = true
		for _, g := range append([]*engine.Fn{f}, f.AllLits()...) {
			for _, s := range g.Calls() {
				fn, _ := s.Callee.(*types.Func)
				h := p.FnOf(fn)
				if h == nil {
					continue
				}
				if tg[h.Name] || walk(h, d-1) {
					return true
				}
			}
		}
		return false
	}
	return walk(p.Func(from), depth)
}

// kcInTestSupport reports whether a function lives in a file that only
// supports tests (test_common.go, testutils...), by package path or file name.
func kcInTestSupport(p *engine.Prog, f *engine.Fn) bool {
	if f == nil {
		return false
	}
	file := p.Fset.Position(f.Pos()).Filename
	base := file[strings.LastIndexByte(file, '/')+1:]
	return strings.HasPrefix(base, "test_") || strings.HasSuffix(base, "_testing.go") || strings.Contains(f.Pkg.PkgPath, "/testutils") || strings.Contains(f.Pkg.PkgPath, "/gnovm/tests/")
}

// kcFilterRefs drops references located in test-support code.
func kcFilterRefs(p *engine.Prog, refs []engine.Ref) []engine.Ref {
	var out []engine.Ref
	for _, r := range refs {
		if r.Fn != nil && kcInTestSupport(p, r.Fn) {
			continue
		}
		out = append(out, r)
	}
	return out
}

// kcClauseOf returns the constant names of the switch clause of f containing
// the node (innermost expression switch whose tag resolves to tagObj), and
// whether such a clause exists.
func kcClauseOf(f *engine.Fn, n ast.Node, tagObj types.Object) (names []string, isDefault, found bool) {
	for _, sw := range f.Switches() {
		if sw.Tag == nil || engine.ObjOf(f.Info(), sw.Tag) != tagObj || sw.Types != nil {
			continue
		}
		ss, ok := sw.Stmt.(*ast.SwitchStmt)
		if !ok {
			continue
		}
		for _, cl := range ss.Body.List {
			cc := cl.(*ast.CaseClause)
			if !(cc.Pos() <= n.Pos() && n.End() <= cc.End()) {
				continue
			}
			if cc.List == nil {
				return nil, true, true
			}
			for k, v := range sw.Consts {
				if v == cc {
					names = append(names, k)
				}
			}
			sort.Strings(names)
			return names, false, true
		}
	}
	return nil, false, false
}

// kcArg returns the i-th argument of a call site or nil.
func kcArg(s *engine.Site, i int) ast.Expr {
	if s.Call == nil || i >= len(s.Call.Args) {
		return nil
	}
	return s.Call.Args[i]
}

// kcSameObj reports whether both expressions (after stripping conversions)
// are identifiers resolving to the same object.
func kcSameObj(info *types.Info, a, b ast.Expr) bool {
	if a == nil || b == nil {
		return false
	}
	a, b = kcStripConv(info, a), kcStripConv(info, b)
	ia, ok1 := a.(*ast.Ident)
	ib, ok2 := b.(*ast.Ident)
	if !ok1 || !ok2 {
		return false
	}
	oa, ob := info.ObjectOf(ia), info.ObjectOf(ib)
	return oa != nil && oa == ob
}

// kcStrLit returns the value of a basic string literal expression.
func kcStrLit(info *types.Info, e ast.Expr) (string, bool) {
	if tv, ok := info.Types[ast.Unparen(e)]; ok && tv.Value != nil && tv.Value.Kind().String() == "String" {
		s := tv.Value.ExactString()
		if len(s) >= 2 {
			return s[1 : len(s)-1], true
		}
	}
	if bl, ok := ast.Unparen(e).(*ast.BasicLit); ok && bl.Kind == token.STRING && len(bl.Value) >= 2 {
		return bl.Value[1 : len(bl.Value)-1], true
	}
	return "", false
}

// kcConcatParts flattens a + b + c.
func kcConcatParts(e ast.Expr) []ast.Expr {
	e = ast.Unparen(e)
	if b, ok := e.(*ast.BinaryExpr); ok && b.Op == token.ADD {
		return append(kcConcatParts(b.X), kcConcatParts(b.Y)...)
	}
	return []ast.Expr{e}
}

// kcTopPanicFacts recognises the idiom
//
//	func f(...) { if bad { ...; m.PanicString(..) }; ...; return v }
//
// for no-return helpers that live in a package loaded only as a dependency
// (so the engine cannot compute their no-return-ness and the CFG keeps the
// fall-through edge). For a normal exit that is a top-level return statement
// of f's body it returns the facts "every ||-disjunct of bad is false" for each
// preceding top-level `if bad {…}` (no else, no init) whose body ends in a
// call to one of the named functions. The named functions must be verified
// no-return elsewhere (C13 does so in the thorough tier) .
func kcTopPanicFacts(f *engine.Fn, exit *engine.Site, noRet ...string) []kcFact {
	var out []kcFact
	idx := -1
	for i, st := range f.Body.List {
		if st == exit.Node {
			idx = i
		}
	}
	if idx < 0 {
		return nil
	}
	for _, st := range f.Body.List[:idx] {
		is, ok := st.(*ast.IfStmt)
		if !ok || is.Else != nil || is.Init != nil || len(is.Body.List) == 0 {
			continue
		}
		es, ok := is.Body.List[len(is.Body.List)-1].(*ast.ExprStmt)
		if !ok {
			continue
		}
		call, ok := es.X.(*ast.CallExpr)
		if !ok || kcIsCallTo(f.Info(), call, noRet...) == nil {
			continue
		}
		out = append(out, kcSplitFacts(kcExpandCond(f, is.Cond, 3), false)...)
	}
	return out
}

// kcMustFollowOK is kcMustFollow restricted to successful exits: returns whose
// last result is the literal nil (or functions without results). Error
// returns abort the enclosing operation and need not run b.
func kcMustFollowOK(f *engine.Fn, a, b *engine.Site) bool {
	g := f.Graph()
	if a.Block == b.Block && (a.Idx < b.Idx || (a.Idx == b.Idx && a.Ord <= b.Ord)) {
		return true
	}
	avoid := map[*cfg.Block]bool{b.Block: true}
	for _, ex := range kcNormalExits(f) {
		if rs, ok := ex.Node.(*ast.ReturnStmt); ok && len(rs.Results) > 0 && !isNil(rs.Results[len(rs.Results)-1]) {
			continue
		}
		if ex.Block == a.Block {
			return false
		}
		for _, s := range a.Block.Succs {
			if g.Reach(s, ex.Block, avoid) {
				return false
			}
		}
	}
	return true
}

// ---- role resolution of the ante closure's locals (by definition, not by name)

// kcSessionMapObj: the local map published with
// ctx.WithValue(std.SessionAccountsContextKey{}, X) inside f.
func kcSessionMapObj(f *engine.Fn) types.Object {
	var out types.Object
	info := f.Info()
	engine.InspectBody(f, func(n ast.Node) {
		call, ok := n.(*ast.CallExpr)
		if !ok || len(call.Args) != 2 {
			return
		}
		if se, ok := call.Fun.(*ast.SelectorExpr); !ok || se.Sel.Name != "WithValue" {
			return
		}
		if engine.TypeName(info.TypeOf(call.Args[0])) != "tm2/pkg/std.SessionAccountsContextKey" {
			return
		}
		if o := engine.ObjOf(info, call.Args[1]); o != nil && kcIsIdent(call.Args[1]) {
			out = o
		}
	})
	return out
}

// kcIsSignersSlice: obj's single definition is a call <x>.GetSigners().
func kcIsSignersSlice(f *engine.Fn, obj types.Object) bool {
	if obj == nil {
		return false
	}
	d, ok := ast.Unparen(kcSingleDef(f, obj)).(*ast.CallExpr)
	if !ok || d == nil {
		return false
	}
	se, ok := d.Fun.(*ast.SelectorExpr)
	return ok && se.Sel.Name == "GetSigners"
}

// kcIsSignerAccs: obj is defined as make([]std.Account, len(S)) with S a
// signers slice (the accounts resolved position-wise for the signers).
func kcIsSignerAccs(f *engine.Fn, obj types.Object) bool {
	if obj == nil {
		return false
	}
	info := f.Info()
	var mk *ast.CallExpr
	rhs, _ := kcDefs(f, obj)
	for _, r := range rhs {
		if c, ok := ast.Unparen(r).(*ast.CallExpr); ok && engine.IsBuiltinCall(info, c, "make") {
			mk = c
		}
	}
	if mk == nil || len(mk.Args) < 2 {
		return false
	}
	lc, ok := ast.Unparen(mk.Args[1]).(*ast.CallExpr)
	if !ok || !engine.IsBuiltinCall(info, lc, "len") {
		return false
	}
	return kcIsSignersSlice(f, engine.ObjOf(info, lc.Args[0]))
}

// kcCmpAny applies m to a comparison expression in both operand orientations
// (operands are passed un-parenthesised).
func kcCmpAny(e ast.Expr, m func(x, y ast.Expr, op token.Token) bool) bool {
	b, ok := ast.Unparen(e).(*ast.BinaryExpr)
	if !ok {
		return false
	}
	switch b.Op {
	case token.LSS, token.GTR, token.LEQ, token.GEQ, token.EQL, token.NEQ:
		return m(ast.Unparen(b.X), ast.Unparen(b.Y), b.Op) || m(ast.Unparen(b.Y), ast.Unparen(b.X), engine.Flip(b.Op))
	}
	return false
}

// kcFalseConj: some gate is passed on its FALSE branch and its (helper-
// transparent) condition is exactly the conjunction of the given predicates,
// in any order — i.e. the site is unreachable when all of them hold, and the
// rejection is not weakened by a further conjunct.
func kcFalseConj(gates []engine.Gate, preds ...func(ast.Expr) bool) bool {
	for _, gt := range gates {
		if gt.OnTrue {
			continue
		}
		cj := engine.Conjuncts(gt.Cond, token.LAND)
		if len(cj) != len(preds) {
			continue
		}
		used := make([]bool, len(cj))
		all := true
		for _, p := range preds {
			hit := false
			for i, e := range cj {
				if !used[i] && p(ast.Unparen(e)) {
					used[i], hit = true, true
					break
				}
			}
			if !hit {
				all = false
				break
			}
		}
		if all {
			return true
		}
	}
	return false
}

// kcConstString / kcConstIs: constant value of an expression (literal or named constant).
func kcConstIs(info *types.Info, e ast.Expr, exact string) bool {
	if tv, ok := info.Types[ast.Unparen(e)]; ok && tv.Value != nil {
		return tv.Value.ExactString() == exact
	}
	if bl, ok := ast.Unparen(e).(*ast.BasicLit); ok {
		return bl.Value == exact
	}
	return false
}

// kcMethodCallOn: e is <x>.<method>(...) ; returns x.
func kcMethodCallOn(e ast.Expr, method string) (ast.Expr, bool) {
	call, ok := ast.Unparen(e).(*ast.CallExpr)
	if !ok {
		return nil, false
	}
	se, ok := call.Fun.(*ast.SelectorExpr)
	if !ok || se.Sel.Name != method {
		return nil, false
	}
	return ast.Unparen(se.X), true
}

// kcHelperPropagatesErr: for a call reached through one helper whose last
// result is an error, every return of the helper with a nil last result is on
// the success side of the inner call's error test, or the helper simply
// returns the inner call.
func kcHelperPropagatesErr(d kcDeep) bool {
	if len(d.Chain) != 1 {
		return false
	}
	h := d.Chain[0]
	g := h.Graph()
	for _, ex := range kcNormalExits(h) {
		rs, ok := ex.Node.(*ast.ReturnStmt)
		if !ok || len(rs.Results) == 0 {
			return false
		}
		last := ast.Unparen(rs.Results[len(rs.Results)-1])
		if last == ast.Expr(d.Inner.Call) {
			continue
		}
		if !isNil(last) {
			continue // some error is returned
		}
		if !g.Dominates(d.Inner, ex) {
			continue // exit taken before the inner call is ever reached (e.g. nothing to do)
		}
		r := g.CheckedGuard(d.Inner, ex)
		if !r.OK || !c09errNilSide(r) || len(engine.Atoms(r.Cond)) != 1 {
			return false
		}
	}
	return true
}

// kcOwnerRoot: if fn is an unexported function all of whose references come
// (transitively) from one single other function, return that function — a
// private helper extracted from it; otherwise fn itself.
func kcOwnerRoot(p *engine.Prog, fn *engine.Fn, depth int) *engine.Fn {
	if fn == nil || fn.Obj == nil || fn.Obj.Exported() || depth == 0 {
		return fn
	}
	refs := p.RefsTo(func(o types.Object) bool { return o == types.Object(fn.Obj) })
	var owner *engine.Fn
	for _, r := range refs {
		if r.Fn == nil {
			return fn
		}
		root := r.Fn.Root()
		if root == fn {
			continue
		}
		root = kcOwnerRoot(p, root, depth-1)
		if owner != nil && owner != root {
			return fn
		}
		owner = root
	}
	if owner == nil {
		return fn
	}
	return owner
}

// kcReachableWith reports whether site can execute when the variable v holds
// the constant value val (nil val: a value different from every constant it is
// compared with). Conditions that compare v with constants (==, !=, tagged
// switch cases on v, combined with && || !) are decided; all others are
// followed on both branches. Works for switch statements and if-chains alike.
func kcReachableWith(f *engine.Fn, site *engine.Site, v types.Object, val constant.Value) bool {
	g := f.Graph()
	info := f.Info()
	var eval func(e ast.Expr) (bool, bool)
	eval = func(e ast.Expr) (bool, bool) {
		switch x := ast.Unparen(e).(type) {
		case *ast.UnaryExpr:
			if x.Op == token.NOT {
				r, k := eval(x.X)
				return !r, k
			}
		case *ast.BinaryExpr:
			switch x.Op {
			case token.LAND, token.LOR:
				a, ka := eval(x.X)
				b, kb := eval(x.Y)
				if x.Op == token.LAND {
					if (ka && !a) || (kb && !b) {
						return false, true
					}
					return a && b, ka && kb
				}
				if (ka && a) || (kb && b) {
					return true, true
				}
				return a || b, ka && kb
			case token.EQL, token.NEQ:
				l, r := ast.Unparen(x.X), ast.Unparen(x.Y)
				if engine.ObjOf(info, r) == v && kcIsIdent(r) {
					l, r = r, l
				}
				if engine.ObjOf(info, l) != v || !kcIsIdent(l) {
					return false, false
				}
				tv, ok := info.Types[r]
				if !ok || tv.Value == nil {
					return false, false
				}
				eq := val != nil && constant.Compare(val, token.EQL, tv.Value)
				if x.Op == token.NEQ {
					return !eq, true
				}
				return eq, true
			}
		}
		return false, false
	}
	seen := map[*cfg.Block]bool{}
	stack := []*cfg.Block{g.CFG.Blocks[0]}
	for len(stack) > 0 {
		b := stack[len(stack)-1]
		stack = stack[:len(stack)-1]
		if seen[b] {
			continue
		}
		seen[b] = true
		if b == site.Block {
			return true
		}
		succs := b.Succs
		if len(succs) == 2 {
			if cond := g.CondOf(b); cond != nil {
				full := ast.Expr(cond)
				if tag := g.TagOf(cond); tag != nil {
					full = &ast.BinaryExpr{X: tag, Op: token.EQL, Y: cond}
				}
				if r, known := eval(full); known {
					if r {
						succs = succs[:1]
					} else {
						succs = succs[1:]
					}
				}
			}
		}
		stack = append(stack, succs...)
	}
	return false
}
