package checks

import (
	"go/ast"
	"go/token"
	"go/types"
	"sort"
	"strconv"
	"strings"

	"golang.org/x/tools/go/cfg"

	"gnoverif/engine"
)

// C33 — crash recovery: the persistence order that the handshake / WAL replay
// case analysis relies on, and the exhaustiveness of that case analysis.
func init() {
	register("C33", c33)
	meta("C33", Meta{
		Text:      "Decides the ordering and case-analysis clauses crash recovery depends on: (1) finalizeCommit: block saved to the store (only when the store is behind) before the fsynced ENDHEIGHT meta record MetaMessage{height+1}, whose failure panics, before ApplyBlock, before updateToState (only on ApplyBlock success); (2) ApplyBlock: ValidateBlock → execBlockOnProxyApp → SaveABCIResponses → app Commit → AppHash assignment → SaveState, errors leave before the next write; (3) Handshaker.ReplayBlocks: the store/state/app height relations are handled by exactly the expected table of (condition → action) instances, inconsistent relations panic or return an error, and the fall-through of the analysis panics; the mock-app replay uses the ABCI responses saved for that height; (4) consensus input is written to the WAL before it is handled (own messages with fsync and panic on failure), the WAL is flushed before signing, catch-up replay runs before the receive routine unless explicitly disabled, and the node performs the handshake and reloads state before building consensus. Level 'other'.",
		Note:      "Not covered: that replay reproduces the same chain (behaviour), atomicity/durability of the DB and WAL implementations (C27, C38, C41), privval state (C34), the app's own crash consistency.",
		Technique: "go/cfg dominance / reachability ordering, error-guard recognition, normalised case-table comparison, who-may-write",
		Ref:       "DESIGN.md §2 C33",
	})
	const S = "tm2/pkg/bft/consensus/state.go"
	const R = "tm2/pkg/bft/consensus/replay.go"
	const E = "tm2/pkg/bft/state/execution.go"
	mutants("C33",
		Mutant{"endheight-before-save", S, "\t// Save to blockStore.\n\tif cs.blockStore.Height() < block.Height {", "\tif err := cs.wal.WriteMetaSync(walm.MetaMessage{Height: height + 1}); err != nil {\n\t\tpanic(err)\n\t}\n\t// Save to blockStore.\n\tif cs.blockStore.Height() < block.Height {", "finalize-order"},
		Mutant{"endheight-not-synced", S, "if err := cs.wal.WriteMetaSync(meta); err != nil { // NOTE: fsync", "if err := cs.wal.FlushAndSync(); err != nil { // NOTE: fsync", "finalize-order"},
		Mutant{"endheight-error-ignored", S, "\t\tpanic(fmt.Sprintf(\"Failed to write %v msg to consensus wal due to %v. Check your FS and restart the node\", meta, err))\n\t}\n\n\t// Create a copy of the state for staging", "\t\tcs.Logger.Error(fmt.Sprintf(\"Failed to write %v msg to consensus wal due to %v. Check your FS and restart the node\", meta, err))\n\t}\n\n\t// Create a copy of the state for staging", "finalize-order"},
		Mutant{"endheight-wrong-height", S, "meta := walm.MetaMessage{Height: height + 1}", "meta := walm.MetaMessage{Height: height}", "finalize-order"},
		Mutant{"state-saved-before-app-commit", E, "\t// Lock mempool, commit app state, update mempoool.\n\tappHash, err := blockExec.Commit(state, block, abciResponses.DeliverTxs)", "\tSaveState(blockExec.db, state)\n\t// Lock mempool, commit app state, update mempoool.\n\tappHash, err := blockExec.Commit(state, block, abciResponses.DeliverTxs)", "apply-order"},
		Mutant{"responses-saved-after-commit", E, "\t// Save the results by height\n\tSaveABCIResponses(blockExec.db, block.Height, abciResponses)\n", "", "apply-order"},
		Mutant{"commit-error-ignored", E, "\tappHash, err := blockExec.Commit(state, block, abciResponses.DeliverTxs)\n\tif err != nil {\n\t\treturn state, fmt.Errorf(\"Commit failed for application: %w\", err)\n\t}", "\tappHash, err := blockExec.Commit(state, block, abciResponses.DeliverTxs)\n\tif err != nil {\n\t\tblockExec.logger.Error(\"Commit failed for application\", \"err\", err)\n\t}", "apply-order"},
		Mutant{"replay-case-dropped", R, "\t\tcase appBlockHeight == storeBlockHeight:\n\t\t\t// We ran Commit, but didn't save the state, so replayBlock with mock app.", "\t\tcase appBlockHeight == storeBlockHeight && len(appHash) > 0:\n\t\t\t// We ran Commit, but didn't save the state, so replayBlock with mock app.", "replay-cases"},
		Mutant{"replay-real-app-twice", R, "\t\t\tstate, err = h.replayBlock(state, storeBlockHeight, mockApp)", "\t\t\t_ = mockApp\n\t\t\tstate, err = h.replayBlock(state, storeBlockHeight, proxyApp.Consensus())", "replay-cases"},
		Mutant{"replay-fallthrough-returns", R, "\tpanic(fmt.Sprintf(\"uncovered case! appHeight: %d, storeHeight: %d, stateHeight: %d\",\n\t\tappBlockHeight, storeBlockHeight, stateBlockHeight))", "\th.logger.Error(fmt.Sprintf(\"uncovered case! appHeight: %d, storeHeight: %d, stateHeight: %d\",\n\t\tappBlockHeight, storeBlockHeight, stateBlockHeight))\n\treturn appHash, nil", "replay-cases"},
		Mutant{"state-ahead-tolerated", R, "\tcase storeBlockHeight < stateBlockHeight:\n", "\tcase storeBlockHeight < stateBlockHeight-1:\n", "replay-cases"},
		Mutant{"own-msg-not-synced", S, "\t\t\terr := cs.wal.WriteSync(mi) // NOTE: fsync", "\t\t\terr := cs.wal.Write(mi) // NOTE: fsync", "wal-before-handle"},
		Mutant{"sign-before-flush", S, "\t// Flush the WAL. Otherwise, we may not recompute the same vote to sign, and the privValidator will refuse to sign anything.\n\tcs.wal.FlushAndSync()\n", "", "wal-before-handle"},
		Mutant{"catchup-skipped", S, "\tif cs.doWALCatchup {\n", "\tif cs.doWALCatchup && cs.Height > 1 {\n", "catchup-first"},
	)
}

func c33(c *engine.Ctx) {
	c.Explain = "Decides ordering/case-analysis necessary conditions of crash recovery: finalizeCommit persists SaveBlock → fsynced MetaMessage{height+1} (failure panics) → ApplyBlock → updateToState; ApplyBlock persists ValidateBlock → exec → SaveABCIResponses → app Commit → SaveState with error exits before the next write; Handshaker.ReplayBlocks' (store,state,app) case table equals the expected one, inconsistent relations panic/err and the fall-through panics; WAL write precedes message handling (fsync+panic for own messages), WAL flush precedes signing, catch-up replay precedes the receive routine, node handshake precedes consensus construction. Not covered: that replay reproduces the chain, DB/WAL durability, the app's own consistency."
	p := c.Load("tm2/pkg/bft/consensus", "tm2/pkg/bft/state", "tm2/pkg/bft/node")
	if p == nil {
		return
	}
	hhUse(p)
	hhSetStops()
	const CS = "tm2/pkg/bft/consensus.(*ConsensusState)."
	const WAL = "tm2/pkg/bft/wal.(WAL)."

	// ---- (1) finalizeCommit order ----
	if f := c.MustFunc(CS + "finalizeCommit"); f != nil {
		info := f.Info()
		recv := hhRecv(f)
		g := f.Graph()
		height := paramObj(f, 0)
		oneD := func(pat string) *engine.DeepSite {
			ss := hhDeepCalls(f, pat)
			if len(ss) != 1 {
				c.Check("finalize-order", f.Name+" exactly one call of "+pat, f.Pos(), false, "found "+hhItoa(len(ss)))
				return nil
			}
			return &ss[0]
		}
		one := func(pat string) *engine.Site {
			if d := oneD(pat); d != nil {
				return d.Outer
			}
			return nil
		}
		saveD := oneD("tm2/pkg/bft/state.(BlockStore).SaveBlock")
		metaD := oneD(WAL + "WriteMetaSync")
		applyD := oneD("tm2/pkg/bft/state.(*BlockExecutor).ApplyBlock")
		upd := one(CS + "updateToState")
		var save, metaW, apply *engine.Site
		if saveD != nil {
			save = saveD.Outer
		}
		if metaD != nil {
			metaW = metaD.Outer
		}
		if applyD != nil {
			apply = applyD.Outer
		}
		n := 0
		if save != nil && metaW != nil {
			n++
			ok := g.ReachableAfter(save, metaW) && !g.ReachableAfter(metaW, save) && save != metaW
			c.Check("finalize-order", f.Name+" SaveBlock before WriteMetaSync", save.Pos(), ok, "the ENDHEIGHT record implies the block is in the store: SaveBlock must never run after it")
			// the save is skipped only when the store already has the block
			names := map[types.Object]string{recv: "cs"}
			facts := hhDeepFacts(f, *saveD)
			var conds []string
			for _, ft := range facts {
				if x, op, y, isCmp := hhCmp(ft); isCmp {
					conds = append(conds, hhNorm(f, x, names, 1)+" "+op.String()+" "+hhNorm(f, y, names, 1))
				}
			}
			blk := engine.ObjOf(info, hhDeepArg(*saveD, 0))
			wantGate := false
			for _, ft := range facts {
				x, op, y, isCmp := hhCmp(ft)
				if !isCmp {
					continue
				}
				if op == token.GTR {
					x, y, op = y, x, token.LSS
				}
				rx, _, isM := hhMethodCall(info, x, "Height")
				if op == token.LSS && isM && hhIsChain(info, rx, recv, "blockStore") && hhIsChain(info, y, blk, "Height") {
					wantGate = true
				}
			}
			c.Check("finalize-order", f.Name+" SaveBlock skipped only if store has the block", save.Pos(), wantGate && blk != nil, "SaveBlock must run exactly when cs.blockStore.Height() < block.Height; gates: "+join(conds))
		}
		if metaW != nil && apply != nil {
			n++
			ok, why := hhDeepErrGuard(f, *metaD, apply)
			if ok {
				why = "ApplyBlock only after the fsynced ENDHEIGHT record was written"
			}
			c.Check("finalize-order", f.Name+" WriteMetaSync (error fatal) before ApplyBlock", metaW.Pos(), ok, why)
			names := map[types.Object]string{height: "height"}
			got := hhNorm(f, hhDeepArg(*metaD, 0), names, 2)
			want := "tm2/pkg/bft/wal.MetaMessage{Height: height + 1}"
			c.Check("finalize-order", f.Name+" ENDHEIGHT value", metaW.Pos(), got == want, "got `"+got+"`, want `"+want+"`")
			if save != nil {
				c.Check("finalize-order", f.Name+" SaveBlock before ApplyBlock", save.Pos(), !g.ReachableAfter(apply, save), "block must be stored before it is applied (handshake replays from the store)")
			}
		}
		if apply != nil && upd != nil {
			n++
			ok, why := hhDeepErrGuard(f, *applyD, upd)
			if ok {
				why = "consensus moves to the next height only after ApplyBlock succeeded"
			}
			c.Check("finalize-order", f.Name+" ApplyBlock (success) before updateToState", upd.Pos(), ok, why)
		}
		c.Floor("finalize-order", n, 3)
	}
	{
		callers := engine.CallerSet(p.RefsToFunc(WAL + "WriteMetaSync"))
		callers = hhWithPrefix(callers, "tm2/pkg/bft/consensus.")
		extra := hhExtra(callers, []string{CS + "finalizeCommit", "tm2/pkg/bft/consensus.(*heightStopWAL).WriteMetaSync", "tm2/pkg/bft/consensus.WALGenerateNBlocks", "tm2/pkg/bft/consensus.WALWithNBlocks"})
		c.Check("finalize-order", "callers of WAL.WriteMetaSync in consensus", token.NoPos, len(extra) == 0, "callers: "+join(callers))
	}

	// ---- (2) ApplyBlock order ----
	if f := c.MustFunc("tm2/pkg/bft/state.(*BlockExecutor).ApplyBlock"); f != nil {
		info := f.Info()
		g := f.Graph()
		seq := []struct{ name, pat string }{
			{"ValidateBlock", "tm2/pkg/bft/state.(State).ValidateBlock"},
			{"execBlockOnProxyApp", "tm2/pkg/bft/state.execBlockOnProxyApp"},
			{"SaveABCIResponses", "tm2/pkg/bft/state.SaveABCIResponses"},
			{"updateState", "tm2/pkg/bft/state.updateState"},
			{"Commit", "tm2/pkg/bft/state.(*BlockExecutor).Commit"},
			{"SaveState", "tm2/pkg/bft/state.SaveState"},
		}
		sites := make([]*engine.Site, len(seq))
		deeps := make([]*engine.DeepSite, len(seq))
		for i, s := range seq {
			ss := hhDeepCalls(f, s.pat)
			if len(ss) != 1 {
				c.Check("apply-order", f.Name+" exactly one "+s.name, f.Pos(), false, "found "+hhItoa(len(ss)))
				continue
			}
			sites[i] = ss[0].Outer
			deeps[i] = &ss[0]
		}
		n := 0
		for i := 0; i+1 < len(seq); i++ {
			a, b := sites[i], sites[i+1]
			if a == nil || b == nil {
				continue
			}
			n++
			ok := g.Dominates(a, b) && !g.ReachableAfter(b, a) && a != b
			why := seq[i].name + " must precede " + seq[i+1].name + " on every path"
			// fallible steps: the next step only on success
			if ok && (seq[i].name == "ValidateBlock" || seq[i].name == "execBlockOnProxyApp" || seq[i].name == "updateState" || seq[i].name == "Commit") {
				ok, why = hhDeepErrGuard(f, *deeps[i], b)
				if !ok {
					why = seq[i+1].name + " runs although " + seq[i].name + " failed: " + why
				}
			}
			c.Check("apply-order", f.Name+" "+seq[i].name+" -> "+seq[i+1].name, b.Pos(), ok, why)
		}
		c.Floor("apply-order", n, 5)
		// SaveState saves a state carrying the app hash returned by Commit
		if cm, sv := sites[4], sites[5]; cm != nil && sv != nil {
			rv := hhResultVars(f, cm)
			if deeps[4].Inner != deeps[4].Outer {
				rv = nil // Commit wrapped in a helper: result variables are the helper call's
				if r2 := hhResultVars(f, cm); len(r2) == 2 {
					rv = r2
				}
			}
			st := engine.ObjOf(info, hhDeepArg(*deeps[5], 1))
			ok := false
			if len(rv) == 2 && rv[0] != nil && st != nil {
				for _, a := range hhFieldAssigns(f, st) {
					if len(a.Fields) == 1 && a.Fields[0] == "AppHash" && engine.ObjOf(info, a.Rhs) == rv[0] && a.Site != nil && g.Dominates(cm, a.Site) && g.Dominates(a.Site, sv) {
						ok = true
					}
				}
			}
			c.Check("apply-order", f.Name+" state.AppHash = Commit() before SaveState", sv.Pos(), ok, "the saved state must carry the app hash returned by the app's Commit")
			// the height under which the responses are saved is the block's
			if sr := sites[2]; sr != nil {
				blk := paramObj(f, 2)
				c.Check("apply-order", f.Name+" SaveABCIResponses(block.Height)", sr.Pos(), hhIsChain(info, hhDeepArg(*deeps[2], 1), blk, "Height"), "responses must be saved under the height of the block being applied (replay with the mock app loads them by store height)")
			}
		}
	}

	// ---- (3) ReplayBlocks case analysis ----
	if f := c.MustFunc("tm2/pkg/bft/consensus.(*Handshaker).ReplayBlocks"); f != nil {
		info := f.Info()
		recv := hhRecv(f)
		state, appHash, app, proxy := paramObj(f, 0), paramObj(f, 1), paramObj(f, 2), paramObj(f, 3)
		names := map[types.Object]string{recv: "h", state: "stateArg", appHash: "appHash", app: "app", proxy: "proxyApp"}
		// role variables: store := h.store.Height(); st := state.LastBlockHeight
		var storeV, stateV types.Object
		engine.InspectBody(f, func(n ast.Node) {
			as, ok := n.(*ast.AssignStmt)
			if !ok || len(as.Lhs) != 1 || len(as.Rhs) != 1 || as.Tok != token.DEFINE {
				return
			}
			id := hhIdent(as.Lhs[0])
			if id == nil {
				return
			}
			if rx, _, isM := hhMethodCall(info, as.Rhs[0], "Height"); isM && hhIsChain(info, rx, recv, "store") {
				storeV = info.ObjectOf(id)
			}
			if hhIsChain(info, as.Rhs[0], state, "LastBlockHeight") {
				stateV = info.ObjectOf(id)
			}
		})
		okRoles := storeV != nil && stateV != nil
		if okRoles {
			if len(hhAssignsTo(f, storeV)) != 1 {
				okRoles = false
			}
			for _, a := range hhAssignsTo(f, stateV) {
				as, isAs := a.(*ast.AssignStmt)
				if !isAs || len(as.Rhs) != 1 || !hhIsChain(info, as.Rhs[0], state, "LastBlockHeight") {
					okRoles = false
				}
			}
			if len(hhAssignsTo(f, app)) != 0 {
				okRoles = false
			}
		}
		c.Check("replay-cases", f.Name+" height variables", f.Pos(), okRoles, "store height must be h.store.Height() (assigned once), state height always state.LastBlockHeight, app height the unmodified parameter")
		if okRoles {
			names[storeV], names[stateV] = "store", "state"
			// context of a site: normalised boolean facts about heights + tagged case values
			ctx := func(s *engine.Site) string {
				var xs []string
				for _, ft := range hhFacts(f, s) {
					if x, op, y, isCmp := hhCmp(ft); isCmp {
						t := hhNorm(f, x, names, 0) + " " + op.String() + " " + hhNorm(f, y, names, 0)
						if strings.Contains(t, "store") || strings.Contains(t, "state") || strings.Contains(t, "app") {
							if !strings.Contains(t, "?") && !strings.Contains(t, "err") {
								xs = append(xs, t)
							}
						}
					}
				}
				for _, gt := range f.Graph().Gates(s) {
					if !hhIsBool(info, gt.Cond) && gt.OnTrue {
						xs = append(xs, "store is "+hhNorm(f, gt.Cond, names, 0))
					}
				}
				sort.Strings(xs)
				return strings.Join(xs, "; ")
			}
			// what all later cases inherit from the constraint switch
			const base = "store != 0; store <= state + 1; store >= app; store >= state"
			type act struct{ key, action, ctx string }
			want := []act{
				{"app behind, state synced", "replayBlocks(mutateState=false)", "app < store; store is state; " + base},
				{"app far behind, state behind", "replayBlocks(mutateState=true)", "app < state; store is state + 1; " + base},
				{"app and state behind", "replayBlock(proxyApp.Consensus())", "app == state; app >= state; store is state + 1; " + base},
				{"app committed, state behind", "replayBlock(mock app with saved responses)", "app == store; app != state; app >= state; store is state + 1; " + base},
			}
			norm := func(s string) string {
				xs := strings.Split(s, "; ")
				sort.Strings(xs)
				return strings.Join(xs, "; ")
			}
			got := map[string]string{}
			for _, s := range f.CallsTo("tm2/pkg/bft/consensus.(*Handshaker).replayBlocks") {
				a := "replayBlocks(mutateState=" + hhNorm(f, hhArg(s.Call, 4), names, 0) + ")"
				okArgs := engine.ObjOf(info, hhArg(s.Call, 0)) == state && engine.ObjOf(info, hhArg(s.Call, 2)) == app && engine.ObjOf(info, hhArg(s.Call, 3)) == storeV
				if !okArgs {
					a += " with unexpected arguments"
				}
				got[a] = ctx(s)
			}
			for _, s := range f.CallsTo("tm2/pkg/bft/consensus.(*Handshaker).replayBlock") {
				arg := hhArg(s.Call, 2)
				a := "replayBlock(" + hhNorm(f, arg, names, 0) + ")"
				if id := hhIdent(arg); id != nil {
					// mock app built from the responses saved for the store height
					d := hhNorm(f, arg, names, 2)
					if d == "tm2/pkg/bft/consensus.newMockProxyApp(appHash, tm2/pkg/bft/state.LoadABCIResponses(h.stateDB, store))" || strings.HasPrefix(d, "tm2/pkg/bft/consensus.newMockProxyApp(appHash, ") {
						a = "replayBlock(mock app with saved responses)"
						// the responses come from LoadABCIResponses(h.stateDB, store), error-guarded
						okLoad := false
						for _, ls := range f.CallsTo("tm2/pkg/bft/state.LoadABCIResponses") {
							if hhNorm(f, hhArg(ls.Call, 1), names, 0) == "store" && hhIsChain(info, hhArg(ls.Call, 0), recv, "stateDB") {
								if g, _ := hhErrGuard(f, ls, s); g {
									rv := hhResultVars(f, ls)
									if mc, isC := ast.Unparen(hhDefExpr(f, info.ObjectOf(id))).(*ast.CallExpr); isC && len(rv) == 2 && engine.ObjOf(info, hhArg(mc, 1)) == rv[0] {
										okLoad = true
									}
								}
							}
						}
						if !okLoad {
							a += " (responses not loaded for the store height under an error guard)"
						}
					}
				}
				if hhNorm(f, hhArg(s.Call, 1), names, 0) != "store" || engine.ObjOf(info, hhArg(s.Call, 0)) != state {
					a += " with unexpected arguments"
				}
				got[a] = ctx(s)
			}
			for _, w := range want {
				g, seen := got[w.action]
				ok := seen && norm(g) == norm(w.ctx)
				why := "handled under exactly the expected relation"
				if !seen {
					why = "no `" + w.action + "` call"
				} else if !ok {
					why = "action is taken under `" + norm(g) + "`, expected `" + norm(w.ctx) + "`"
				}
				c.Check("replay-cases", f.Name+" case "+w.key+" -> "+w.action, f.Pos(), ok, why)
				delete(got, w.action)
			}
			for a, g := range got {
				c.Check("replay-cases", f.Name+" unexpected action "+a, f.Pos(), false, "under `"+g+"`")
			}
			c.Floor("replay-cases actions", len(want), 4)

			// the constraint switch: conditions and outcomes
			type cons struct{ cond, outcome string }
			wantCons := []cons{
				{"store == 0", "return"},
				{"store < app", "error"},
				{"store < state", "panic"},
				{"store > state + 1", "panic"},
			}
			gotCons := map[string]string{}
			for _, si := range f.Switches() {
				sw, isSw := si.Stmt.(*ast.SwitchStmt)
				if !isSw || sw.Tag != nil {
					continue
				}
				for _, cl := range sw.Body.List {
					cc := cl.(*ast.CaseClause)
					if len(cc.List) != 1 {
						continue
					}
					k := hhNorm(f, cc.List[0], names, 0)
					if !strings.HasPrefix(k, "store ") {
						continue
					}
					out := "falls through"
					if len(cc.Body) > 0 {
						switch last := cc.Body[len(cc.Body)-1].(type) {
						case *ast.ReturnStmt:
							out = "return"
							if len(last.Results) == 2 && !isNil(last.Results[1]) {
								out = "error"
							}
						case *ast.ExprStmt:
							if call, isCall := last.X.(*ast.CallExpr); isCall && !p.MayReturn(info, call) {
								out = "panic"
							}
						}
					}
					gotCons[k] = out
				}
			}
			for _, w := range wantCons {
				c.Check("replay-cases", f.Name+" constraint "+w.cond+" -> "+w.outcome, f.Pos(), gotCons[w.cond] == w.outcome, "got `"+gotCons[w.cond]+"`")
			}
			// fall-through of the whole analysis panics
			tailPanics := false
			if n := len(f.Body.List); n > 0 {
				if es, isE := f.Body.List[n-1].(*ast.ExprStmt); isE {
					if call, isCall := es.X.(*ast.CallExpr); isCall && !p.MayReturn(info, call) {
						tailPanics = true
					}
				}
			}
			c.Check("replay-cases", f.Name+" uncovered relation panics", f.Pos(), tailPanics, "a height relation not matched by any case must not be silently accepted")
			// synced case asserts the app hash
			nAssert := 0
			for _, s := range f.CallsTo("tm2/pkg/bft/consensus.assertAppHashEqualsOneFromState") {
				_ = s
				nAssert++
			}
			c.Floor("replay-cases app-hash assertions", nAssert, 2)
		}
	}

	// ---- (4a) WAL before handling ----
	if f := c.MustFunc(CS + "receiveRoutine"); f != nil {
		info := f.Info()
		recv := hhRecv(f)
		g := f.Graph()
		n := 0
		engine.InspectBody(f, func(x ast.Node) {
			cc, ok := x.(*ast.CommClause)
			if !ok || cc.Comm == nil {
				return
			}
			var ch ast.Expr
			var msgObj types.Object
			switch st := cc.Comm.(type) {
			case *ast.AssignStmt:
				if u, isU := ast.Unparen(st.Rhs[0]).(*ast.UnaryExpr); isU && u.Op == token.ARROW {
					ch = u.X
					msgObj = engine.ObjOf(info, st.Lhs[0])
				}
			case *ast.ExprStmt:
				if u, isU := ast.Unparen(st.X).(*ast.UnaryExpr); isU && u.Op == token.ARROW {
					ch = u.X
				}
			}
			if ch == nil {
				return
			}
			_, fs, isC := hhChain(info, ch)
			queue := ""
			if isC && len(fs) == 1 {
				queue = fs[0]
			} else if rx, _, isM := hhMethodCall(info, ch, "Chan"); isM && hhIsChain(info, rx, recv, "timeoutTicker") {
				queue = "timeoutTicker"
			}
			if queue != "peerMsgQueue" && queue != "internalMsgQueue" && queue != "timeoutTicker" {
				return
			}
			// handler calls inside this clause
			for _, s := range f.CallsTo(CS+"handleMsg", CS+"handleTimeout") {
				if !(cc.Pos() <= s.Pos() && s.Pos() < cc.End()) {
					continue
				}
				n++
				harg := engine.ObjOf(info, hhArg(s.Call, 0))
				if msgObj == nil {
					msgObj = harg
				}
				ok, why := false, "no WAL write of the message before it is handled"
				for _, w := range f.CallsTo(WAL+"Write", WAL+"WriteSync") {
					if !(cc.Pos() <= w.Pos() && w.Pos() < cc.End()) || engine.ObjOf(info, hhArg(w.Call, 0)) != harg || harg == nil {
						continue
					}
					if !g.Dominates(w, s) {
						continue
					}
					if queue == "internalMsgQueue" {
						if !strings.HasSuffix(w.CalleeName(), "WriteSync") {
							why = "own messages (our votes/proposals) must be written with WriteSync (fsync)"
							continue
						}
						if ok, why = hhErrGuard(f, w, s); !ok {
							why = "a failed fsync of an own message must stop processing: " + why
							continue
						}
					}
					ok, why = true, "logged first"
				}
				c.Check("wal-before-handle", f.Name+" case <-"+queue+" -> "+s.CalleeName()[strings.LastIndex(s.CalleeName(), ".")+1:], s.Pos(), ok, why)
			}
		})
		c.Floor("wal-before-handle receiveRoutine", n, 3)
	}
	for _, pr := range [][2]string{{"signVote", "tm2/pkg/bft/types.(PrivValidator).SignVote"}, {"defaultDecideProposal", "tm2/pkg/bft/types.(PrivValidator).SignProposal"}} {
		if f := c.MustFunc(CS + pr[0]); f != nil {
			fl := engine.Outers(hhDeepCalls(f, WAL+"FlushAndSync"))
			sg := engine.Outers(hhDeepCalls(f, pr[1]))
			c.Floor("wal-before-handle "+pr[0], len(sg), 1)
			for _, s := range sg {
				c.Check("wal-before-handle", f.Name+" FlushAndSync before signing", s.Pos(), f.Graph().MustPass(s, fl), "the WAL must be flushed before the private validator is asked to sign (replay must recompute the same message)")
			}
		}
	}

	// ---- (4b) catch-up replay before the receive routine ----
	if f := c.MustFunc(CS + "OnStart"); f != nil {
		info := f.Info()
		recv := hhRecv(f)
		g := f.Graph()
		var goSite *engine.Site
		for _, s := range f.CallsTo(CS + "receiveRoutine") {
			if s.InGo {
				goSite = s
			}
		}
		cu := f.CallsTo(CS + "catchupReplay")
		ok, why := false, "no `go cs.receiveRoutine` / catchupReplay"
		if goSite != nil && len(cu) == 1 {
			// gate of the catch-up: only cs.doWALCatchup
			var sw *engine.Gate
			var extra []string
			gs := g.Gates(cu[0])
			for i := range gs {
				if !hhIsBool(info, gs[i].Cond) {
					continue
				}
				if hhIsChain(info, gs[i].Cond, recv, "doWALCatchup") && gs[i].OnTrue {
					sw = &gs[i]
					continue
				}
				if c32OtherBranchErrs(f, gs[i]) {
					continue
				}
				extra = append(extra, hhRender(gs[i].Cond))
			}
			if sw == nil || len(extra) > 0 {
				why = "catchupReplay must be conditional only on cs.doWALCatchup; other conditions: " + join(extra)
			} else {
				avoid := map[*cfg.Block]bool{cu[0].Block: true, sw.Block.Succs[1]: true}
				if g.Reach(g.CFG.Blocks[0], goSite.Block, avoid) {
					why = "the receive routine can start without catch-up replay although doWALCatchup is set"
				} else if !hhIsChain(info, hhArg(cu[0].Call, 0), recv, "Height") {
					why = "catch-up must replay the current height cs.Height"
				} else {
					ok, why = true, "replay precedes the receive routine"
				}
			}
		}
		c.Check("catchup-first", f.Name+" catchupReplay before receiveRoutine", f.Pos(), ok, why)
	}
	if fld := p.Field("tm2/pkg/bft/consensus.ConsensusState.doWALCatchup"); fld != nil {
		ws := engine.WriterSet(p.FieldWrites(fld), nil)
		extra := hhExtra(ws, []string{"tm2/pkg/bft/consensus.NewConsensusState", CS + "StartWithoutWALCatchup", "tm2/pkg/bft/consensus.(*ConsensusReactor).SwitchToConsensus"})
		c.Check("catchup-first", "writers of ConsensusState.doWALCatchup", token.NoPos, len(extra) == 0 && len(ws) >= 1, "writers: "+join(ws))
		callers := engine.CallerSet(p.RefsToFunc(CS + "StartWithoutWALCatchup"))
		c.Check("catchup-first", "callers of StartWithoutWALCatchup (production)", token.NoPos, len(callers) == 0, "callers: "+join(callers))
	} else {
		c.Undecided("catchup-first", "doWALCatchup", "field not found")
	}
	if f := c.MustFunc(CS + "catchupReplay"); f != nil {
		info := f.Info()
		n := 0
		for _, s := range f.CallsTo(CS + "readReplayMessage") {
			n++
			// under `found` of the search for the previous ENDHEIGHT
			okFound := false
			for _, ft := range hhFacts(f, s) {
				if id := hhIdent(ft.E); id != nil && ft.True {
					for _, a := range hhAssignsTo(f, info.ObjectOf(id)) {
						if as, isAs := a.(*ast.AssignStmt); isAs && len(as.Rhs) == 1 {
							if _, call, isM := hhMethodCall(info, as.Rhs[0], "SearchForHeight"); isM && engine.ObjOf(info, hhArg(call, 0)) == paramObj(f, 0) {
								okFound = true
							}
						}
					}
				}
			}
			c.Check("catchup-first", f.Name+" replays only after #ENDHEIGHT of the previous height was found", s.Pos(), okFound, "messages must be replayed from the marker of the height being resumed")
		}
		c.Floor("catchup-first catchupReplay", n, 1)
	}

	// ---- (4c) node: handshake, then reload state, then consensus ----
	if f := c.MustFunc("tm2/pkg/bft/node.NewNode"); f != nil {
		info := f.Info()
		g := f.Graph()
		hs := f.CallsTo("tm2/pkg/bft/node.doHandshake")
		ld := f.CallsTo("tm2/pkg/bft/state.LoadState")
		cr := f.CallsTo("tm2/pkg/bft/node.createConsensusReactor")
		c.Floor("node-order", len(cr), 1)
		for _, s := range cr {
			ok, why := false, "no doHandshake before createConsensusReactor"
			for _, h := range hs {
				if ok, why = hhErrGuard(f, h, s); !ok {
					continue
				}
				// state passed to consensus is reloaded after the handshake
				st := engine.ObjOf(info, hhArg(s.Call, 1))
				rel := false
				for _, l := range ld {
					if rv := hhResultVars(f, l); len(rv) == 1 && rv[0] == st && g.Dominates(h, l) && g.Dominates(l, s) {
						rel = true
					}
				}
				if !rel {
					ok, why = false, "consensus must be built from the state reloaded (sm.LoadState) after the handshake"
				}
			}
			c.Check("node-order", f.Name+" handshake -> LoadState -> createConsensusReactor", s.Pos(), ok, why)
		}
	}
	if f := c.MustFunc("tm2/pkg/bft/node.doHandshake"); f != nil {
		hk := f.CallsTo("tm2/pkg/bft/consensus.(*Handshaker).Handshake")
		ok := len(hk) == 1
		if ok {
			// its error is returned
			ok = false
			for _, rb := range f.Graph().ReturnBlocks() {
				ret := rb.Return()
				if len(ret.Results) == 1 && !isNil(ret.Results[0]) {
					if rs := f.SiteOf(ret); rs != nil {
						if g, _ := hhErrGuardInv(f, hk[0], rs); g {
							ok = true
						}
					}
				}
			}
		}
		c.Check("node-order", f.Name+" propagates Handshake error", f.Pos(), ok, "a failed handshake must stop node construction")
	}
}

func hhItoa(n int) string { return strconv.Itoa(n) }
