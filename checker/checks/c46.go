package checks

import (
	"fmt"
	"go/ast"
	"go/constant"
	"go/token"
	"go/types"
	"regexp"
	"strings"

	"golang.org/x/tools/go/ssa"

	"gnoverif/engine"
)

// C46 — key armor / keybase decrypt, bip39 mnemonics, BIP-32/44 path derivation (thin).
func init() {
	register("C46", c46)
	meta("C46", Meta{
		Text:      "Thin claim; the primitives (bcrypt, xsalsa20-poly1305, HMAC-SHA512, secp256k1, PBKDF2) are not analysed. Decided on every path: UnarmorDecryptPrivKey reaches decryption only after the armor error, block type, kdf, salt and hex tests, with the stored salt / decoded body / caller passphrase as operands; encrypt and decrypt derive the key identically (same cost constant, Sha256 of the bcrypt output, salt size = bcrypt's); the header written by EncryptArmorPrivKey is the one the reader tests; the wrong-passphrase literal matched by decryptPrivKey is the one DecryptSymmetric constructs on a failed tag; every keybase caller uses the key only on the nil-error edge (Delete: no deletion after a failed decrypt); bip39: size tests with the BIP-39 constants gate NewMnemonic/NewEntropy, word-count/word-list/checksum tests gate MnemonicToByteArray's success, and the value returned is the entropy the checksum was computed over; hd: parse errors and negative indices return before deriving, integer indices are range-checked before narrowing to uint32, the hardened bit/serialisation follow the apostrophe flag, and the BIP-32 constants are the specified ones. Level 'other'.",
		Note:      "Not covered: correctness of the primitives, numerical conformance with BIP-32/39/44 vectors, passphrase-entropy, os.Exit on bcrypt errors (a malformed salt length kills the process), panic of DerivePrivateKeyForPath on an empty path segment (observed, not part of the statement).",
		Technique: "go/ssa verdict gating with edge dominance, operand identity, cross-package constant agreement, go/cfg gate atoms",
		Ref:       "DESIGN.md §2 C46",
	})
	const af = "tm2/pkg/crypto/keys/armor/armor.go"
	const bf = "tm2/pkg/crypto/bip39/bip39.go"
	const hf = "tm2/pkg/crypto/hd/hdpath.go"
	const kf = "tm2/pkg/crypto/keys/keybase.go"
	const sf = "tm2/pkg/crypto/xsalsa20symmetric/symmetric.go"
	mutants("C46",
		Mutant{"blocktype-test-weakened", af, "if blockType != blockTypePrivKey {\n\t\treturn privKey, fmt.Errorf(", "if blockType != blockTypePrivKey && blockType != blockTypePubKey {\n\t\treturn privKey, fmt.Errorf(", "unarmor-gate"},
		Mutant{"kdf-test-weakened", af, "if header[\"kdf\"] != \"bcrypt\" {", "if header[\"kdf\"] != \"bcrypt\" && header[\"kdf\"] != \"\" {", "unarmor-gate"},
		Mutant{"plain-key-with-passphrase", af, "if len(header) == 0 && passphrase == \"\" {", "if len(header) == 0 {", "unarmor-gate"},
		Mutant{"cost-differs", af, "key, err := bcrypt.GenerateFromPassword(saltBytes, []byte(passphrase), bcryptSecurityParameter)\n\tif err != nil {\n\t\tos.Exit(\"Error generating bcrypt key from passphrase: \" + err.Error())\n\t}\n\tkey = crypto.Sha256(key) // Get", "key, err := bcrypt.GenerateFromPassword(saltBytes, []byte(passphrase), bcryptSecurityParameter+1)\n\tif err != nil {\n\t\tos.Exit(\"Error generating bcrypt key from passphrase: \" + err.Error())\n\t}\n\tkey = crypto.Sha256(key) // Get", "kdf-agree"},
		Mutant{"sha-skipped-on-encrypt", af, "key = crypto.Sha256(key) // get 32 bytes", "key = key[:32] // get 32 bytes", "kdf-agree"},
		Mutant{"header-key-renamed", af, "\"kdf\":  \"bcrypt\",", "\"KDF\":  \"bcrypt\",", "header-agree"},
		Mutant{"wrong-pass-text-drift", sf, "errors.New(\"ciphertext decryption failed\")", "errors.New(\"ciphertext decryption failed!\")", "wrong-pass-literal"},
		Mutant{"decrypt-error-ignored", af, "} else if err != nil {\n\t\treturn privKey, err\n\t}", "} else if err != nil && len(privKeyBytes) == 0 {\n\t\treturn privKey, err\n\t}", "verdict-used"},
		Mutant{"delete-after-failed-decrypt", kf, "passphrase); err != nil {\n\t\t\treturn err\n\t\t}", "passphrase); err != nil && passphrase != \"\" {\n\t\t\treturn err\n\t\t}", "verdict-used"},
		Mutant{"word-count-bound", bf, "numOfWords < 12 ||", "numOfWords < 9 ||", "mnemonic-gate"},
		Mutant{"checksum-mismatch-tolerated", bf, "if hex[i] != validationHex[i] {", "if hex[i] != validationHex[i] && i == 0 {", "mnemonic-gate"},
		Mutant{"entropy-size-unchecked", bf, "err := validateEntropyBitSize(entropyBitLength)\n\tif err != nil {\n\t\treturn \"\", err\n\t}", "err := validateEntropyBitSize(entropyBitLength)\n\tif err != nil && sentenceLength == 0 {\n\t\treturn \"\", err\n\t}", "entropy-gate"},
		Mutant{"entropy-size-constants", bf, "bitSize < 128 ||", "bitSize < 96 ||", "entropy-gate"},
		Mutant{"negative-index-accepted", hf, "if idx < 0 || idx > math.MaxInt32 {", "if idx < -1 || idx > math.MaxInt32 {", "hd-segment-gate"},
		Mutant{"refix-index-upper-bound-dropped", hf, "if idx < 0 || idx > math.MaxInt32 {", "if idx < 0 {", "hd-index-range tm2/pkg/crypto/hd.DerivePrivateKeyForPath"},
		Mutant{"refix-hardenedint-bound-too-wide", hf, "if i > math.MaxInt32 {", "if i > math.MaxUint32 {", "hd-index-range tm2/pkg/crypto/hd.hardenedInt"},
		Mutant{"refix-mnemonic-returns-checksummed", bf, "return entropyHex, nil", "return hex, nil", "mnemonic-returns-entropy"},
		Mutant{"harden-always", hf, "data, chainCode = derivePrivateKey(data, chainCode, uint32(idx), harden)", "data, chainCode = derivePrivateKey(data, chainCode, uint32(idx), true)", "hd-hardened"},
		Mutant{"hardened-bit", hf, "index = index | 0x80000000", "index = index | 0x40000000", "hd-hardened"},
		Mutant{"master-key-label", hf, "[]byte(\"Bitcoin seed\")", "[]byte(\"bitcoin seed\")", "hd-constants"},
		Mutant{"chain-split", hf, "copy(IR[:], I[32:])", "copy(IR[:], I[31:])", "hd-constants"},
	)
}

func c46(c *engine.Ctx) {
	c.Explain = "Thin: structural clauses of armor/keybase decrypt, bip39 and hd — see the per-rule details. unarmor-gate: decryptPrivKey is reached only after DecodeArmor's nil error, block type == private-key type, header kdf == bcrypt, non-empty hex-decodable salt, and gets (decoded salt, armor body, caller passphrase); the unencrypted shortcut needs empty header AND empty passphrase. kdf-agree/header-agree: writer and reader use the same cost constant, Sha256(bcrypt(..)), header keys/values and block type; salt size = bcrypt's. wrong-pass-literal: cross-package literal agreement. verdict-used: results of DecodeArmor / DecryptSymmetric / UnarmorDecryptPrivKey are used only on the nil-error edge. entropy-gate / mnemonic-gate: BIP-39 size, word-count, word-list and checksum tests gate the success returns; mnemonic-returns-entropy: MnemonicToByteArray returns the bytes the checksum is computed over. hd-segment-gate / hd-index-range / hd-hardened / hd-constants: per-segment parse checks, index range before uint32 narrowing, apostrophe→hardened mapping, BIP-32 constants. Not covered: the primitives, numerical conformance with the BIP vectors."
	p := c.Load("tm2/pkg/crypto/keys/armor", "tm2/pkg/crypto/keys", "tm2/pkg/crypto/bip39", "tm2/pkg/crypto/hd", "tm2/pkg/crypto/xsalsa20symmetric", "tm2/pkg/crypto/bcrypt")
	if p == nil {
		return
	}
	c46armor(c, p)
	c46bip39(c, p)
	c46hd(c, p)
}

func cjStrConst(p *engine.Prog, q string) (string, bool) {
	k, ok := p.Object(q).(*types.Const)
	if !ok || k.Val().Kind() != constant.String {
		return "", false
	}
	return constant.StringVal(k.Val()), true
}

func cjIntConst(p *engine.Prog, q string) (int64, bool) {
	k, ok := p.Object(q).(*types.Const)
	if !ok || k.Val().Kind() != constant.Int {
		return 0, false
	}
	return constant.Int64Val(k.Val())
}

func c46armor(c *engine.Ctx, p *engine.Prog) {
	const A = "tm2/pkg/crypto/keys/armor."
	const DA = "tm2/pkg/crypto/armor.DecodeArmor"
	isStr := func(want string) func(ssa.Value) bool {
		return func(v ssa.Value) bool { s, ok := cjConstString(v); return ok && s == want }
	}
	isVal := func(x ssa.Value) func(ssa.Value) bool { return func(v ssa.Value) bool { return x != nil && v == x } }
	btPriv, okc := cjStrConst(p, A+"blockTypePrivKey")
	if !okc {
		c.Undecided("anchor", A+"blockTypePrivKey", "constant not found")
		return
	}

	// --- unarmor-gate
	ng := 0
	un := c.MustFunc(A + "UnarmorDecryptPrivKey")
	if sf := cjSSA(c, p, un); sf != nil {
		da := cjFirstCall(sf, DA)
		dp := cjFirstCall(sf, A+"decryptPrivKey")
		if da == nil || dp == nil {
			c.Undecided("unarmor-gate", un.Name, "DecodeArmor / decryptPrivKey call not found")
		} else {
			bt, hdr, enc, derr := cjResult(da, 0), cjResult(da, 1), cjResult(da, 2), cjResult(da, 3)
			T := dp.Block()
			chk := func(key string, ok bool, why string) {
				ng++
				c.Check("unarmor-gate", un.Name+" "+key, dp.Pos(), ok, why)
			}
			chk("armor error before decrypt", cjGated(derr, T), "decryptPrivKey must be reached only on DecodeArmor's nil-error edge")
			chk("block type before decrypt", cjCmpGate(sf, T, token.EQL, isVal(bt), isStr(btPriv)), "decryptPrivKey must be reached only when blockType == blockTypePrivKey")
			chk("kdf before decrypt", cjCmpGate(sf, T, token.EQL, func(v ssa.Value) bool { return hdr != nil && cjIsMapLookup(v, hdr, "kdf") }, isStr("bcrypt")), "decryptPrivKey must be reached only when header[kdf] == bcrypt")
			chk("salt present before decrypt", cjCmpGate(sf, T, token.NEQ, func(v ssa.Value) bool { return hdr != nil && cjIsMapLookup(v, hdr, "salt") }, isStr("")), "decryptPrivKey must be reached only when header[salt] != \"\"")
			var hx *ssa.Call
			for _, h := range cjSSACalls(sf, "encoding/hex.DecodeString") {
				if hdr != nil && cjIsMapLookup(h.Call.Args[0], hdr, "salt") {
					hx = h
				}
			}
			chk("salt hex-decoded before decrypt", hx != nil && cjGated(cjResult(hx, 1), T), "the salt must be hex-decoded from header[salt] and its error tested")
			a := dp.Call.Args
			pp, _ := a[2].(*ssa.Parameter)
			chk("decrypt operands", hx != nil && a[0] == cjResult(hx, 0) && a[1] == enc && enc != nil && pp != nil && pp.Name() == "passphrase",
				"decryptPrivKey must receive (decoded salt, armor body, the caller's passphrase)")
			// shortcut
			for _, pk := range cjSSACalls(sf, "tm2/pkg/crypto.PrivKeyFromBytes") {
				okp := cjCmpGate(sf, pk.Block(), token.EQL, func(v ssa.Value) bool { q, ok := v.(*ssa.Parameter); return ok && q.Name() == "passphrase" }, isStr(""))
				okh := cjCmpGate(sf, pk.Block(), token.EQL, func(v ssa.Value) bool { x, ok := cjIsLenCall(v); return ok && x == hdr }, func(v ssa.Value) bool { k, ok := cjConstInt(v); return ok && k == 0 })
				chk("unencrypted shortcut", okp && okh && cjGated(derr, pk.Block()) && cjCmpGate(sf, pk.Block(), token.EQL, isVal(bt), isStr(btPriv)),
					"the plain-key shortcut must require an empty header and an empty passphrase (and the armor/type tests)")
			}
		}
	}
	c.Floor("unarmor-gate", ng, 7)

	// --- kdf-agree (helper-transparent: the key handed to the cipher is rendered as a term)
	nk := 0
	encF, decF := c.MustFunc(A+"encryptPrivKey"), c.MustFunc(A+"decryptPrivKey")
	var costs []string
	keyRe := regexp.MustCompile(`^tm2/pkg/crypto\.Sha256\(tm2/pkg/crypto/bcrypt\.GenerateFromPassword\((.+), conv:\[\]byte\((param#\d+)\), (\d+)\)@\d+#0\)@\d+$`)
	for _, it := range []struct {
		f   *engine.Fn
		sym string
	}{{encF, "tm2/pkg/crypto/xsalsa20symmetric.EncryptSymmetric"}, {decF, "tm2/pkg/crypto/xsalsa20symmetric.DecryptSymmetric"}} {
		sf := cjSSA(c, p, it.f)
		if sf == nil {
			continue
		}
		s := cjFirstCall(sf, it.sym)
		if s == nil {
			c.Check("kdf-agree", it.f.Name, it.f.Pos(), false, "symmetric cipher call not found")
			continue
		}
		nk++
		sy := cjNewSym(sf)
		term := sy.Term(s.Call.Args[1], nil, 3)
		m := keyRe.FindStringSubmatch(term)
		okShape := m != nil
		c.Check("kdf-agree", it.f.Name+" key = Sha256(bcrypt)", s.Pos(), okShape, "the symmetric key must be crypto.Sha256(bcrypt.GenerateFromPassword(salt, []byte(passphrase), cost)); it is "+term)
		if !okShape {
			continue
		}
		salt, pass, cost := m[1], m[2], m[3]
		costs = append(costs, cost)
		// the password operand is a string parameter of the function
		okPass := false
		for k, pr := range sf.Params {
			if fmt.Sprintf("param#%d", k) == pass {
				if b, ok := pr.Type().Underlying().(*types.Basic); ok && b.Kind() == types.String {
					okPass = true
				}
			}
		}
		c.Check("kdf-agree", it.f.Name+" bcrypt operands", s.Pos(), okPass, "bcrypt must hash []byte(<the passphrase parameter>) with a constant cost")
		if it.f == encF {
			want, okw := cjIntConst(p, "tm2/pkg/crypto/bcrypt.maxSaltSize")
			okSalt := okw && regexp.MustCompile(fmt.Sprintf(`^tm2/pkg/crypto\.CRandBytes\(%d\)@\d+$`, want)).MatchString(salt)
			// the salt handed back is the one hashed (same call instance)
			for _, b := range sf.Blocks {
				if r, ok := b.Instrs[len(b.Instrs)-1].(*ssa.Return); ok && (len(r.Results) != 2 || sy.Term(r.Results[0], nil, 3) != salt) {
					okSalt = false
				}
			}
			c.Check("kdf-agree", it.f.Name+" salt", s.Pos(), okSalt, "the salt must be CRandBytes(bcrypt.maxSaltSize) and be returned for the header; it is "+salt)
		} else {
			okSalt := false
			for k, pr := range sf.Params {
				if fmt.Sprintf("param#%d", k) == salt {
					if _, ok := pr.Type().Underlying().(*types.Slice); ok {
						okSalt = true
					}
				}
			}
			c.Check("kdf-agree", it.f.Name+" salt", s.Pos(), okSalt, "decrypt must hash with the stored salt parameter; it uses "+salt)
		}
	}
	c.Check("kdf-agree", "bcrypt cost encrypt == decrypt", token.NoPos, len(costs) == 2 && costs[0] == costs[1], "both sides must use the same cost constant")
	c.Floor("kdf-agree", nk, 2)

	// --- header-agree: what EncryptArmorPrivKey writes is what the reader tests
	nh := 0
	if sf := cjSSA(c, p, c.MustFunc(A+"EncryptArmorPrivKey")); sf != nil {
		for _, ea := range cjSSACalls(sf, "tm2/pkg/crypto/armor.EncodeArmor") {
			mm, isMap := ea.Call.Args[1].(*ssa.MakeMap)
			if !isMap {
				continue // the passphrase-less branch goes through ArmorPrivateKey
			}
			nh++
			bt, _ := cjConstString(ea.Call.Args[0])
			keys := map[string]ssa.Value{}
			for _, r := range *mm.Referrers() {
				if mu, ok := r.(*ssa.MapUpdate); ok {
					if k, ok := cjConstString(mu.Key); ok {
						keys[k] = mu.Value
					}
				}
			}
			kdf, _ := cjConstString(keys["kdf"])
			okSalt := false
			if sp, ok := keys["salt"].(*ssa.Call); ok {
				switch cjCalleeName(sp) {
				case "fmt.Sprintf":
					if f, ok := cjConstString(sp.Call.Args[0]); ok && (f == "%X" || f == "%x") {
						okSalt = true
					}
				case "encoding/hex.EncodeToString":
					okSalt = true
				}
			}
			c.Check("header-agree", "EncryptArmorPrivKey block type", ea.Pos(), bt == btPriv, "the encrypted armor must carry blockTypePrivKey")
			c.Check("header-agree", "EncryptArmorPrivKey header kdf", ea.Pos(), kdf == "bcrypt" && len(keys) == 2, "header must be exactly {kdf: bcrypt, salt: …}; got keys "+join(engine.SortedKeys(keys)))
			c.Check("header-agree", "EncryptArmorPrivKey header salt", ea.Pos(), okSalt, "salt must be written hex-encoded (reader uses hex.DecodeString)")
		}
	}
	c.Floor("header-agree", nh, 1)

	// --- wrong-pass-literal
	lit := ""
	nl := 0
	if sf := cjSSA(c, p, c.MustFunc("tm2/pkg/crypto/xsalsa20symmetric.DecryptSymmetric")); sf != nil {
		if op := cjFirstCall(sf, "golang.org/x/crypto/nacl/secretbox.Open"); op != nil {
			okv := cjResult(op, 1)
			for _, e := range cjVerdictEdges(okv) {
				bad := e.B.Succs[1-e.SI]
				if r, ok := bad.Instrs[len(bad.Instrs)-1].(*ssa.Return); ok && len(r.Results) == 2 {
					if en, ok := r.Results[1].(*ssa.Call); ok && cjCalleeName(en) == "errors.New" {
						lit, _ = cjConstString(en.Call.Args[0])
					}
				}
			}
		}
	}
	if sf := cjSSA(c, p, decF); sf != nil {
		for _, b := range sf.Blocks {
			for _, in := range b.Instrs {
				bo, ok := in.(*ssa.BinOp)
				if !ok || bo.Op != token.EQL {
					continue
				}
				s, isS := cjConstString(bo.Y)
				call, isC := bo.X.(*ssa.Call)
				if !isS || !isC || !call.Call.IsInvoke() || call.Call.Method.Name() != "Error" {
					continue
				}
				nl++
				c.Check("wrong-pass-literal", decF.Name+" matches DecryptSymmetric's failure text", bo.Pos(), lit != "" && s == lit,
					"decryptPrivKey compares err.Error() with "+cjQuote(s)+"; DecryptSymmetric's failed-authentication return constructs "+cjQuote(lit))
			}
		}
	}
	c.Floor("wrong-pass-literal", nl, 1)

	// --- verdict-used
	nv := 0
	use := func(fname string, vIdx int, callee string, min int) {
		f := c.MustFunc(fname)
		sf := cjSSA(c, p, f)
		if sf == nil {
			return
		}
		calls := cjSSACalls(sf, callee)
		if len(calls) < min {
			c.Check("verdict-used", f.Name+" -> "+callee, f.Pos(), false, "expected call not found")
		}
		for _, call := range calls {
			nv++
			ok, why := cjUsesGated(call, vIdx)
			c.Check("verdict-used", f.Name+" -> "+callee, call.Pos(), ok, why)
		}
	}
	use(A+"UnarmorDecryptPrivKey", 3, DA, 1)
	use(A+"UnarmorPrivateKey", 3, DA, 1)
	use(A+"unarmorBytes", 3, DA, 1)
	use(A+"decryptPrivKey", 1, "tm2/pkg/crypto/xsalsa20symmetric.DecryptSymmetric", 1)
	const KB = "tm2/pkg/crypto/keys.(dbKeybase)."
	const UD = A + "UnarmorDecryptPrivKey"
	use(KB+"Sign", 1, UD, 1)
	use(KB+"ExportPrivKey", 1, UD, 1)
	use(KB+"Rotate", 1, UD, 1)
	if del := c.MustFunc(KB + "Delete"); del != nil {
		if sf := cjSSA(c, p, del); sf != nil {
			for _, call := range cjSSACalls(sf, UD) {
				nv++
				edges := cjVerdictEdges(cjResult(call, 1))
				ok := len(edges) > 0
				why := "no deletion is reachable from the failed-decrypt edge"
				if !ok {
					why = "the decrypt error is not tested"
				}
				for _, e := range edges {
					bad := e.B.Succs[1-e.SI]
					for _, d := range cjSSACalls(sf, ".DeleteSync", ".Delete") {
						if cjReaches(bad, d.Block()) {
							ok, why = false, "a "+cjCalleeName(d)+" call is reachable after the passphrase check failed"
						}
					}
				}
				if len(cjSSACalls(sf, ".DeleteSync", ".Delete")) == 0 {
					ok, why = false, "no delete calls found (rule needs re-anchoring)"
				}
				c.Check("verdict-used", del.Name+" -> "+UD, call.Pos(), ok, why)
			}
		}
	}
	// any other caller in the loaded packages must be in the table above
	callers := engine.CallerSet(p.RefsToFunc(UD))
	known := []string{KB + "Sign", KB + "ExportPrivKey", KB + "Rotate", KB + "Delete"}
	c.Check("verdict-used", "callers of UnarmorDecryptPrivKey are all examined", token.NoPos, len(engine.SetDiff(callers, known)) == 0, "callers: "+join(callers))
	c.Floor("verdict-used", nv, 8)
}

func cjQuote(s string) string { return "\"" + s + "\"" }

func c46bip39(c *engine.Ctx, p *engine.Prog) {
	const B = "tm2/pkg/crypto/bip39."
	// --- entropy-gate
	ne := 0
	if f := c.MustFunc(B + "validateEntropyBitSize"); f != nil {
		// the `return nil` is reached only when none of the rejecting atoms holds
		for _, r := range cjReturns(f) {
			if len(r.Results) == 1 && isNil(r.Results[0]) {
				ne++
				at := cjBoundAtoms(f, f.SiteOf(r), paramObj(f, 0))
				ok := at["%32!=0"] && at["<128"] && at[">256"]
				c.Check("entropy-gate", f.Name+" accepts only 128..256 step 32", r.Pos(), ok, "rejecting atoms found: "+join(cjKeys(at))+"; need %32!=0, <128, >256")
			}
		}
	}
	for _, name := range []string{"NewMnemonic", "NewEntropy"} {
		f := c.MustFunc(B + name)
		sf := cjSSA(c, p, f)
		if sf == nil {
			continue
		}
		v := cjFirstCall(sf, B+"validateEntropyBitSize")
		if v == nil {
			c.Check("entropy-gate", f.Name, f.Pos(), false, "validateEntropyBitSize is not called")
			continue
		}
		// argument: len(entropy)*8 resp. the bitSize parameter
		argOK := false
		switch a := v.Call.Args[0].(type) {
		case *ssa.Parameter:
			argOK = true
		case *ssa.BinOp:
			if a.Op == token.MUL {
				_, l1 := cjIsLenCall(a.X)
				k, k1 := cjConstInt(a.Y)
				argOK = l1 && k1 && k == 8
			}
		}
		for _, ret := range cjSuccessReturns(sf) {
			ne++
			c.Check("entropy-gate", f.Name+" success after size test", ret.Pos(), argOK && cjGated(v, ret.Block()), "the success return must be dominated by validateEntropyBitSize(len*8 / bitSize) == nil")
		}
		// NewEntropy returns (entropy, err-from-rand): treat the final return as the success return
		if name == "NewEntropy" {
			for _, b := range sf.Blocks {
				if r, ok := b.Instrs[len(b.Instrs)-1].(*ssa.Return); ok && !cjIsNilConst(r.Results[0]) {
					ne++
					c.Check("entropy-gate", f.Name+" bytes after size test", r.Pos(), argOK && cjGated(v, b), "entropy bytes must be produced only after the size test")
				}
			}
		}
	}
	c.Floor("entropy-gate", ne, 3)

	// --- mnemonic-gate
	nm := 0
	if f := c.MustFunc(B + "IsMnemonicValid"); f != nil {
		info := f.Info()
		g := f.Graph()
		for _, r := range cjReturns(f) {
			if len(r.Results) != 1 {
				continue
			}
			if v, ok := cjConstBool(info, r.Results[0]); !ok || !v {
				continue
			}
			nm++
			site := f.SiteOf(r)
			// word count
			var cnt types.Object
			engine.InspectBody(f, func(n ast.Node) {
				if as, ok := n.(*ast.AssignStmt); ok && len(as.Lhs) == 1 && len(as.Rhs) == 1 {
					if call, ok := as.Rhs[0].(*ast.CallExpr); ok && engine.IsBuiltinCall(info, call, "len") {
						cnt = engine.ObjOf(info, as.Lhs[0])
					}
				}
			})
			at := map[string]bool{}
			if cnt != nil {
				at = cjBoundAtoms(f, site, cnt)
			}
			c.Check("mnemonic-gate", f.Name+" word count 12..24 step 3", r.Pos(), at["<12"] && at[">24"] && at["%3!=0"], "rejecting atoms found: "+join(cjKeys(at))+"; need <12, >24, %3!=0")
			// word list membership loop dominates `return true`
			okLoop := false
			engine.InspectBody(f, func(n ast.Node) {
				var body *ast.BlockStmt
				var head ast.Node
				switch l := n.(type) {
				case *ast.RangeStmt:
					body, head = l.Body, l.X
				case *ast.ForStmt:
					body, head = l.Body, l.Cond
				}
				if body == nil || head == nil {
					return
				}
				ast.Inspect(body, func(m ast.Node) bool {
					is, ok := m.(*ast.IfStmt)
					if !ok {
						return true
					}
					as, ok := is.Init.(*ast.AssignStmt)
					if !ok || len(as.Lhs) != 2 || len(as.Rhs) != 1 {
						return true
					}
					ix, ok := ast.Unparen(as.Rhs[0]).(*ast.IndexExpr)
					if !ok || engine.ObjOf(info, ix.X) == nil || engine.ObjOf(info, ix.X).Name() != "ReverseWordMap" {
						return true
					}
					if !isNot(is.Cond) || engine.ObjOf(info, is.Cond.(*ast.UnaryExpr).X) != engine.ObjOf(info, as.Lhs[1]) {
						return true
					}
					retFalse := false
					for _, st := range is.Body.List {
						if rr, ok := st.(*ast.ReturnStmt); ok && len(rr.Results) == 1 {
							if v, ok := cjConstBool(info, rr.Results[0]); ok && !v {
								retFalse = true
							}
						}
					}
					hs := f.SiteOf(head)
					if retFalse && hs != nil && site != nil && g.Dominates(hs, site) {
						okLoop = true
					}
					return true
				})
			})
			c.Check("mnemonic-gate", f.Name+" every word in the word list", r.Pos(), okLoop, "`return true` must be dominated by a loop that returns false for a word missing from ReverseWordMap")
		}
	}
	var retObj, sumArg types.Object
	if f := c.MustFunc(B + "MnemonicToByteArray"); f != nil {
		info := f.Info()
		g := f.Graph()
		sf := cjSSA(c, p, f)
		var succ *ast.ReturnStmt
		for _, r := range cjReturns(f) {
			if len(r.Results) == 2 && isNil(r.Results[1]) && !isNil(r.Results[0]) {
				succ = r
			}
		}
		if succ == nil || sf == nil {
			c.Undecided("mnemonic-gate", f.Name, "success return not found")
		} else {
			site := f.SiteOf(succ)
			retObj = engine.ObjOf(info, succ.Results[0])
			// (a) validity + size verdicts
			for _, callee := range []string{B + "IsMnemonicValid", B + "validateEntropyWithChecksumBitSize"} {
				nm++
				ok := false
				if call := cjFirstCall(sf, callee); call != nil {
					for _, ret := range cjSuccessReturns(sf) {
						ok = cjGated(call, ret.Block())
					}
				}
				c.Check("mnemonic-gate", f.Name+" success after "+callee[len(B):], succ.Pos(), ok, "the success return must be dominated by the good verdict of "+callee)
			}
			// (b) checksum comparison
			var sumVar types.Object
			for _, s := range f.CallsTo(B + "addChecksum") {
				if objs := cjAssignedFrom(f, s); len(objs) == 1 {
					sumVar = objs[0]
					if len(s.Call.Args) == 1 {
						sumArg = engine.ObjOf(info, s.Call.Args[0])
					}
				}
			}
			nm++
			okSum, why := false, "no comparison of the candidate bytes with addChecksum's output gates the success return"
			if sumVar != nil && site != nil {
				// idiom 1: loop with element-wise != and error return
				engine.InspectBody(f, func(n ast.Node) {
					rs, ok := n.(*ast.RangeStmt)
					if !ok {
						return
					}
					for _, st := range rs.Body.List {
						is, ok := st.(*ast.IfStmt)
						if !ok {
							continue
						}
						b, ok := ast.Unparen(is.Cond).(*ast.BinaryExpr)
						if !ok || b.Op != token.NEQ {
							why = "checksum comparison is combined with another condition or is not `!=`"
							continue
						}
						xi, ok1 := ast.Unparen(b.X).(*ast.IndexExpr)
						yi, ok2 := ast.Unparen(b.Y).(*ast.IndexExpr)
						if !ok1 || !ok2 {
							continue
						}
						xo, yo := engine.ObjOf(info, xi.X), engine.ObjOf(info, yi.X)
						if !((xo == sumVar && yo != nil && yo != sumVar) || (yo == sumVar && xo != nil && xo != sumVar)) {
							continue
						}
						other := xo
						if xo == sumVar {
							other = yo
						}
						retErr := false
						for _, s2 := range is.Body.List {
							if rr, ok := s2.(*ast.ReturnStmt); ok && len(rr.Results) == 2 && !isNil(rr.Results[1]) {
								retErr = true
							}
						}
						full := engine.ObjOf(info, rs.X) == sumVar || engine.ObjOf(info, rs.X) == other
						if hs := f.SiteOf(rs.X); retErr && full && hs != nil && g.Dominates(hs, site) {
							okSum, why = true, "element-wise comparison loop over the whole slice dominates the success return"
						}
					}
				})
				// idiom 2: bytes.Equal / subtle.ConstantTimeCompare verdict
				for _, s := range f.CallsTo("bytes.Equal", "crypto/subtle.ConstantTimeCompare") {
					if engine.Mentions(info, s.Call, sumVar) {
						if r := g.CheckedGuard(s, site); r.OK && len(engine.Atoms(r.Cond)) == 1 {
							okSum, why = true, "comparison call gates the success return"
						}
					}
				}
			}
			c.Check("mnemonic-gate", f.Name+" checksum compared before success", succ.Pos(), okSum, why)
		}
		// --- mnemonic-returns-entropy
		if succ != nil {
			ok := retObj != nil && sumArg != nil && retObj == sumArg
			rn, an := "?", "?"
			if retObj != nil {
				rn = retObj.Name()
			}
			if sumArg != nil {
				an = sumArg.Name()
			}
			c.Check("mnemonic-returns-entropy", f.Name+" success value", succ.Pos(), ok,
				"the function returns `"+rn+"` but the entropy (the bytes the checksum is computed over, which NewMnemonic accepts back) is `"+an+"`: entropy → mnemonic → bytes does not return the entropy")
			c.Floor("mnemonic-returns-entropy", 1, 1)
		} else {
			c.Floor("mnemonic-returns-entropy", 0, 1)
		}
	}
	c.Floor("mnemonic-gate", nm, 4)
}

func c46hd(c *engine.Ctx, p *engine.Prog) {
	const H = "tm2/pkg/crypto/hd."
	dv := c.MustFunc(H + "DerivePrivateKeyForPath")
	dk := c.MustFunc(H + "derivePrivateKey")
	// --- hd-segment-gate (the parse may live in a private helper: follow the index value to its origin)
	ns := 0
	nh := 0
	for _, sf := range cjWithAnon(cjSSA(c, p, dv)) {
		for _, d := range cjSSACalls(sf, H+"derivePrivateKey") {
			ns++
			conv, parse, chainOK := c46Origin(d.Call.Args[2], d.Block(), 2)
			okParse, okNeg := false, false
			if conv != nil && parse != nil && chainOK {
				of := conv.Parent()
				idx := conv.X
				okParse = cjGated(cjResult(parse, 1), conv.Block())
				okNeg = cjCmpGate(of, conv.Block(), token.GEQ, func(v ssa.Value) bool { return v == idx }, func(v ssa.Value) bool { k, ok := cjConstInt(v); return ok && k == 0 }) ||
					cjCalleeName(parse) == "strconv.ParseUint"
			}
			c.Check("hd-segment-gate", dv.Name+" parse error returns before deriving", d.Pos(), okParse, "derivePrivateKey's index must come (directly or through a helper whose error is tested) from a strconv parse whose nil-error edge dominates its use")
			c.Check("hd-segment-gate", dv.Name+" negative index rejected", d.Pos(), okNeg, "derivation must be reached only when idx >= 0")
			// hardened flag: a `'` suffix test, possibly computed in a helper
			nh++
			term := cjNewSym(sf).Term(d.Call.Args[3], nil, 3)
			okH := regexp.MustCompile(`^strings\.HasSuffix\(.+, "'"\)@\d+$`).MatchString(term) || regexp.MustCompile(`^\(.+\[.*\] == "'"\)$`).MatchString(term)
			c.Check("hd-hardened", dv.Name+" hardened flag from apostrophe suffix", d.Pos(), okH, "the flag passed to derivePrivateKey must be the `'` suffix test of the path segment; it is "+term)
		}
	}
	c.Floor("hd-segment-gate", ns, 1)

	// --- hd-index-range: narrowing of a parsed int to uint32 needs an upper bound < 2^31 (the hardened bit is OR-ed on top)
	nr := 0
	for _, f := range p.FuncsIn("tm2/pkg/crypto/hd") {
		if f.Obj == nil {
			continue
		}
		for _, sf := range cjWithAnon(p.SSAFunc(f)) {
			for _, b := range sf.Blocks {
				for _, in := range b.Instrs {
					cv, ok := in.(*ssa.Convert)
					if !ok {
						continue
					}
					bt, ok := cv.Type().Underlying().(*types.Basic)
					if !ok || bt.Kind() != types.Uint32 {
						continue
					}
					e, ok := cv.X.(*ssa.Extract)
					if !ok {
						continue
					}
					parse, ok := e.Tuple.(*ssa.Call)
					if !ok || !strings.HasPrefix(cjCalleeName(parse), "strconv.") {
						continue
					}
					nr++
					ok, why := false, "the parsed index is narrowed to uint32 without an upper-bound test: values >= 2^32 wrap (…/4294967296 derives the key of …/0) and values in [2^31, 2^32) collide with the hardened range"
					switch cjCalleeName(parse) {
					case "strconv.ParseUint", "strconv.ParseInt":
						if bits, isK := cjConstInt(parse.Call.Args[2]); isK && bits > 0 && bits <= 31 {
							ok, why = true, "parsed with bitSize <= 31"
						}
					}
					isIdx := func(v ssa.Value) bool { return v == ssa.Value(e) }
					lim := func(max int64) func(ssa.Value) bool {
						return func(v ssa.Value) bool { k, ok := cjConstInt(v); return ok && k <= max }
					}
					if cjCmpGate(sf, b, token.LEQ, isIdx, lim(1<<31-1)) || cjCmpGate(sf, b, token.LSS, isIdx, lim(1<<31)) {
						ok, why = true, "upper bound test dominates the conversion"
					}
					c.Check("hd-index-range", f.Name+" uint32(parsed index)", cv.Pos(), ok, why)
				}
			}
		}
	}
	c.Floor("hd-index-range", nr, 2)

	// --- hd-hardened (continued)
	if dk != nil {
		info := dk.Info()
		g := dk.Graph()
		hard := cjParam(dk, "harden")
		gateOn := func(n ast.Node, wantTrue bool) bool {
			s := dk.SiteOf(n)
			if s == nil || hard == nil {
				return false
			}
			for _, gt := range g.Gates(s) {
				if engine.ObjOf(info, gt.Cond) == hard && gt.OnTrue == wantTrue {
					return true
				}
			}
			return false
		}
		orOK, zeroOK, pubOK := false, false, false
		engine.InspectBody(dk, func(n ast.Node) {
			switch x := n.(type) {
			case *ast.AssignStmt:
				for _, r := range x.Rhs {
					if b, ok := ast.Unparen(r).(*ast.BinaryExpr); ok && b.Op == token.OR {
						if k, ok := cjConstOf(info, b.Y); ok && k == 0x80000000 && gateOn(x, true) {
							orOK = true
						}
					}
				}
				if x.Tok == token.OR_ASSIGN {
					if k, ok := cjConstOf(info, x.Rhs[0]); ok && k == 0x80000000 && gateOn(x, true) {
						orOK = true
					}
				}
			case *ast.CompositeLit:
				// []byte{byte(0)} prefix of the hardened serialisation
				if len(x.Elts) == 1 && gateOn(x, true) {
					if k, ok := cjConstOf(info, x.Elts[0]); ok && k == 0 {
						zeroOK = true
					}
				}
			case *ast.CallExpr:
				if s := dk.SiteOf(x); s != nil && strings.HasSuffix(s.CalleeName(), ".SerializeCompressed") && gateOn(x, false) {
					pubOK = true
				}
			}
		})
		nh += 3
		c.Check("hd-hardened", dk.Name+" index |= 2^31 only when hardened", dk.Pos(), orOK, "`index | 0x80000000` must sit on the hardened branch")
		c.Check("hd-hardened", dk.Name+" hardened data = 0x00 || key", dk.Pos(), zeroOK, "the hardened branch must serialise 0x00 || private key")
		c.Check("hd-hardened", dk.Name+" normal data = compressed public key", dk.Pos(), pubOK, "the non-hardened branch must serialise the compressed public key")
	}
	c.Floor("hd-hardened", nh, 4)

	// --- hd-constants
	nc := 0
	if f := c.MustFunc(H + "ComputeMastersFromSeed"); f != nil {
		nc++
		found := ""
		engine.InspectBody(f, func(n ast.Node) {
			if bl, ok := n.(*ast.BasicLit); ok && bl.Kind == token.STRING {
				if tv, has := f.Info().Types[bl]; has && tv.Value != nil {
					found = constant.StringVal(tv.Value)
				}
			}
		})
		okUse := len(f.CallsTo(H+"i64")) == 1
		c.Check("hd-constants", f.Name+" HMAC key", f.Pos(), found == "Bitcoin seed" && okUse, "the master key is HMAC-SHA512(key = \"Bitcoin seed\", seed); found "+cjQuote(found))
	}
	if f := c.MustFunc(H + "i64"); f != nil {
		info := f.Info()
		nc++
		okH := false
		for _, s := range f.CallsTo("crypto/hmac.New") {
			if o := engine.ObjOf(info, s.Call.Args[0]); o != nil && o.Pkg() != nil && o.Pkg().Path() == "crypto/sha512" && o.Name() == "New" && engine.ObjOf(info, s.Call.Args[1]) == paramObj(f, 0) {
				okH = true
			}
		}
		c.Check("hd-constants", f.Name+" HMAC-SHA512 keyed by first operand", f.Pos(), okH, "i64 must be hmac.New(sha512.New, key)")
		// split at 32
		lo, hi := false, false
		for _, s := range f.CallsTo("builtin.copy") {
			if se, ok := ast.Unparen(s.Call.Args[1]).(*ast.SliceExpr); ok {
				if se.Low == nil && se.High != nil {
					if k, ok := cjConstOf(info, se.High); ok && k == 32 {
						lo = true
					}
				}
				if se.High == nil && se.Low != nil {
					if k, ok := cjConstOf(info, se.Low); ok && k == 32 {
						hi = true
					}
				}
			}
		}
		nc++
		c.Check("hd-constants", f.Name+" IL/IR split at byte 32", f.Pos(), lo && hi, "IL = I[:32], IR = I[32:]")
	}
	if f := c.MustFunc(H + "addScalars"); f != nil {
		nc++
		ok := false
		engine.InspectBody(f, func(n ast.Node) {
			if se, isSel := n.(*ast.SelectorExpr); isSel && se.Sel.Name == "N" {
				if call, isCall := ast.Unparen(se.X).(*ast.CallExpr); isCall {
					if s := f.SiteOf(call); s != nil && strings.HasSuffix(s.CalleeName(), "btcec/v2.S256") {
						ok = true
					}
				}
			}
		})
		okMod := len(f.CallsTo("math/big.(*Int).Mod")) == 1 && len(f.CallsTo("math/big.(*Int).Add")) == 1
		c.Check("hd-constants", f.Name+" addition modulo the secp256k1 group order", f.Pos(), ok && okMod, "child key = (IL + parent) mod n with n = S256().N")
	}
	c.Floor("hd-constants", nc, 4)
}

// c46Origin follows an index value back to `uint32(<strconv parse result>)`:
// directly, or through in-program helpers (result k of a call whose verdict
// gates `target`, taken from the helper's only success return).
func c46Origin(v ssa.Value, target *ssa.BasicBlock, depth int) (*ssa.Convert, *ssa.Call, bool) {
	switch x := v.(type) {
	case *ssa.Convert:
		if e, ok := x.X.(*ssa.Extract); ok {
			if parse, ok := e.Tuple.(*ssa.Call); ok && strings.HasPrefix(cjCalleeName(parse), "strconv.") {
				return x, parse, true
			}
		}
	case *ssa.Extract:
		call, ok := x.Tuple.(*ssa.Call)
		if !ok || depth <= 0 {
			return nil, nil, false
		}
		h := cjBody(call)
		if h == nil {
			return nil, nil, false
		}
		if !cjGated(cjResult(call, cjLastIdx(call)), target) {
			return nil, nil, false
		}
		res := cjSuccessResult(h, x.Index)
		if res == nil {
			return nil, nil, false
		}
		blk := target
		if in, ok := res.(ssa.Instruction); ok {
			blk = in.Block()
		}
		return c46Origin(res, blk, depth-1)
	}
	return nil, nil, false
}
