package checks

import (
	"go/ast"
	"go/token"
	"go/types"
	"strings"

	"gnoverif/engine"
)

// C13 — chain parameters can be written only by their owners.
func init() {
	register("C13", c13)
	meta("C13", Meta{
		Text:      "Decides the gates on every path from Gno code to the params store: the 7 chain/params natives pass to ExecContext.Params a key that is the single result of pkey(m, key) of their own key parameter, and pkey returns only for a non-empty key without ':' and formats \"vm:%s:%s\" from the CURRENT realm's path and that key; the 7 sys/params setters run assertSysParamsRealm first (which returns only when the calling package is gno.land/r/sys/params) and use prmkey (name without ':', non-empty submodule); nobody else in the stdlibs references the ParamsInterface writers; every SDKParams writer passes mustHaveModuleKeeper(key) (colon present, module registered) before the keeper write of the same key; in the params keeper every store write of set/SetBytes is dominated by validate(key,value), validate reaches the registered module's WillSetParam for every key with a module prefix, SetStruct requires a registered module, and only those three functions write the params store; each module's SetParams stores only after Validate succeeded; each registered WillSetParam returns normally only after Validate() == nil, or (vm) for keys outside the module's own \"p:\" namespace; Go-side writers of the params keeper are a frozen table.",
		Note:      "Not covered: the logic of the modules' Validate functions, that CurrentRealm/m.Frames denote the right realm (VM semantics), the realm r/sys/params and the governance realm's own access control (.gno), test stdlibs under gnovm/tests (excluded by path).",
		Technique: "sibling rule over the 14 native setters + 6 SDKParams setters, wrapper-guard rule (normal exits gated), who-may-call tables closed over interfaces, checked-guard dominance",
		Ref:       "DESIGN.md §2 C13",
	})
	mutants("C13",
		Mutant{"pkey-colon-allowed", "gnovm/stdlibs/chain/params/params.go", "\tif strings.Contains(key, \":\") {\n\t\tm.PanicString(\"invalid param key: \" + key)", "\tif strings.Contains(key, \"::\") {\n\t\tm.PanicString(\"invalid param key: \" + key)", "realm-key"},
		Mutant{"pkey-bypassed-in-one-native", "gnovm/stdlibs/chain/params/params.go", "func SetBytes(m *gno.Machine, key string, val []byte) {\n\tpk := pkey(m, key)", "func SetBytes(m *gno.Machine, key string, val []byte) {\n\tpk := \"vm:\" + key", "native-key"},
		Mutant{"pkey-previous-realm", "gnovm/stdlibs/chain/params/params.go", "\t_, rlmPath := execctx.CurrentRealm(m)", "\t_, rlmPath := execctx.GetRealm(m, 1)", "realm-key"},
		Mutant{"sys-assert-dropped", "gnovm/stdlibs/sys/params/params.go", "func X_setSysParamUint64(m *gno.Machine, module, submodule, name string, val uint64) {\n\tassertSysParamsRealm(m)", "func X_setSysParamUint64(m *gno.Machine, module, submodule, name string, val uint64) {", "sys-gate"},
		Mutant{"sys-assert-weakened", "gnovm/stdlibs/sys/params/params.go", "\tif m.Frames[len(m.Frames)-2].LastPackage.PkgPath != \"gno.land/r/sys/params\" {", "\tif m.Frames[len(m.Frames)-2].LastPackage.PkgPath != \"gno.land/r/sys/params\" && len(m.Frames) > 64 {", "sys-gate"},
		Mutant{"sdk-setter-direct", "gno.land/pkg/sdk/vm/builtins.go", "func (prm *SDKParams) SetInt64(key string, value int64) {\n\tprm.setWithCheck(key, func() {\n\t\tdiff := prm.pmk.SetInt64(prm.ctx, key, value)\n\t\trecordParamsDelta(prm.ctx, prm.pmk, key, diff)\n\t})\n}", "func (prm *SDKParams) SetInt64(key string, value int64) {\n\tdiff := prm.pmk.SetInt64(prm.ctx, key, value)\n\trecordParamsDelta(prm.ctx, prm.pmk, key, diff)\n}", "module-registered"},
		Mutant{"sdk-setter-other-runner", "gno.land/pkg/sdk/vm/builtins.go", "\tprm.setWithCheck(key, func() {\n\t\tdiff := prm.pmk.SetUint64(", "\tfunc(_ string, run func()) { run() }(key, func() {\n\t\tdiff := prm.pmk.SetUint64(", "module-registered"},
		Mutant{"module-check-any-colon", "gno.land/pkg/sdk/vm/builtins.go", "\tif !prm.pmk.IsRegistered(mname) {", "\tif !prm.pmk.IsRegistered(mname) && mname == \"\" {", "module-registered"},
		Mutant{"keeper-setbytes-unvalidated", "tm2/pkg/sdk/params/keeper.go", "\tpk.validate(ctx, key, value)\n\tgctx := ctx.GasContext()\n\tstor := ctx.Store(pk.key)\n\tskey := storeKey(key)", "\tgctx := ctx.GasContext()\n\tstor := ctx.Store(pk.key)\n\tskey := storeKey(key)", "validate-before-write"},
		Mutant{"validate-unregistered-passes", "tm2/pkg/sdk/params/keeper.go", "\tif !ok {\n\t\tpanic(\"module not registered: \" + module)\n\t}", "\tif !ok {\n\t\treturn\n\t}", "validate-reaches-module"},
		Mutant{"vm-unknown-module-param-accepted", "gno.land/pkg/sdk/vm/params.go", "\t\tif strings.HasPrefix(key, \"p:\") {\n\t\t\tpanic(fmt.Sprintf(\"unknown vm param key: %q\", key))\n\t\t}", "\t\tif strings.HasPrefix(key, \"p:x\") {\n\t\t\tpanic(fmt.Sprintf(\"unknown vm param key: %q\", key))\n\t\t}", "willset-validates"},
		Mutant{"bank-param-unvalidated", "tm2/pkg/sdk/bank/params.go", "\tif err := params.Validate(); err != nil {\n\t\tpanic(\"invalid param: \" + err.Error())\n\t}", "\tif err := params.Validate(); err != nil && ctx.BlockHeight() == 0 {\n\t\tpanic(\"invalid param: \" + err.Error())\n\t}", "willset-validates"},
		Mutant{"setparams-unvalidated", "tm2/pkg/sdk/auth/params.go", "\tak.prmk.SetStruct(ctx, \"p\", params)", "\tak.prmk.SetStruct(ctx, \"p\", DefaultParams())", "setparams-validated"},
	)
}

const (
	c13CP  = "gnovm/stdlibs/chain/params"
	c13SP  = "gnovm/stdlibs/sys/params"
	c13Ifc = "gnovm/stdlibs/internal/execctx.(ParamsInterface)."
	c13PK  = "tm2/pkg/sdk/params"
)

var c13Writers = []string{"SetString", "SetBool", "SetInt64", "SetUint64", "SetBytes", "SetStrings", "UpdateStrings"}

func c13(c *engine.Ctx) {
	c.Explain = "Decides the key-namespace and validation gates between Gno code and the params store (see manifest text): native key provenance (pkey / assertSysParamsRealm+prmkey), wrapper guards, SDKParams module-registration gate, keeper validate-before-write, WillSetParam/SetParams validation, and who-may-call tables for all writers. Not covered: the modules' Validate logic, VM frame semantics, .gno access control of r/sys/params."
	pats := []string{"gnovm/stdlibs/...", "gnovm/tests/stdlibs/...", c08VM, c13PK, "tm2/pkg/sdk/auth", c08Bank, "gno.land/pkg/gnoland"}
	if c.Tier == "thorough" {
		pats = []string{"gnovm/...", "tm2/...", "gno.land/..."}
	}
	p := c.Load(pats...)
	if p == nil {
		return
	}
	if c.Tier == "thorough" {
		for _, n := range c13NoRet {
			if f := c.MustFunc(n); f != nil {
				c.Check("assumption", n+" never returns", f.Pos(), p.NoReturn(f.Obj), "pkey relies on it to stop on a rejected key")
			}
		}
	} else {
		c.Assume = append(c.Assume, "gnolang.(*Machine).PanicString/Panic never return normally (verified from source in the thorough tier)")
	}
	c13natives(c, p)
	c13sdk(c, p)
	c13keeper(c, p)
	c13modules(c, p)
}

// Machine.PanicString / Panic live in gnolang, which the quick tier loads only
// as a dependency; they are treated as no-return (assumption, verified against
// the source in the thorough tier where gnolang is loaded with syntax).
var c13NoRet = []string{"gnovm/pkg/gnolang.(*Machine).PanicString", "gnovm/pkg/gnolang.(*Machine).Panic"}

func c13writerPats() []string {
	var out []string
	for _, w := range c13Writers {
		out = append(out, c13Ifc+w)
	}
	return out
}

func c13natives(c *engine.Ctx, p *engine.Prog) {
	// who references the ParamsInterface writers
	allow := []string{}
	for _, n := range []string{"SetString", "SetBool", "SetInt64", "SetUint64", "SetBytes", "SetStrings", "UpdateParamStrings"} {
		allow = append(allow, c13CP+"."+n)
	}
	for _, n := range []string{"X_setSysParamString", "X_setSysParamBool", "X_setSysParamInt64", "X_setSysParamUint64", "X_setSysParamBytes", "X_setSysParamStrings", "X_updateSysParamStrings"} {
		allow = append(allow, c13SP+"."+n)
	}
	refs := kcFilterRefs(p, p.RefsToFunc(c13writerPats()...))
	kcCallerTable(c, p, "who-may-call", "execctx.ParamsInterface writers", refs, allow, allow)
	// SDKParams' own writer methods: reachable through the interface only (+ UpdateStrings -> SetStrings)
	for _, w := range c13Writers {
		rs := kcFilterRefs(p, p.RefsToFunc(c08VM+".(*SDKParams)."+w))
		al := []string{}
		if w == "SetStrings" {
			al = []string{c08VM + ".(*SDKParams).UpdateStrings"}
		}
		kcCallerTable(c, p, "who-may-call", c08VM+".(*SDKParams)."+w, rs, al, nil)
	}

	nn := 0
	for _, r := range refs {
		if r.Fn == nil {
			continue
		}
		f := r.Fn
		info := f.Info()
		g := f.Graph()
		var site *engine.Site
		for _, s := range f.Calls() {
			if s.Call != nil && s.Call.Fun.Pos() <= r.Ident.Pos() && r.Ident.End() <= s.Call.Fun.End() {
				site = s
			}
		}
		if site == nil {
			kcAt(c, p, "native-key", f.Name+" writer used as value", r.Ident.Pos(), false, "ParamsInterface writer must be called directly")
			continue
		}
		nn++
		keyArg := kcArg(site, 0)
		def := kcResolve(f, keyArg)
		switch f.Pkg.PkgPath {
		case engine.ModPrefix + c13CP:
			call := kcIsCallTo(info, def, c13CP+".pkey")
			ok := call != nil && len(call.Args) == 2 && engine.ObjOf(info, call.Args[1]) == kcParam(f, "key") && kcParam(f, "key") != nil
			if ok {
				if rhs, okd := kcDefs(f, kcParam(f, "key")); !okd || len(rhs) != 0 {
					ok = false
				}
			}
			kcAt(c, p, "native-key", f.Name, site.Pos(), ok, "the key handed to ExecContext.Params must be pkey(m, key) of the native's own key parameter; got `"+engine.ExprString(def)+"`")
		case engine.ModPrefix + c13SP:
			call := kcIsCallTo(info, def, c13SP+".prmkey")
			kcAt(c, p, "native-key", f.Name, site.Pos(), call != nil, "the key must be built by prmkey; got `"+engine.ExprString(def)+"`")
			as := f.CallsTo(c13SP + ".assertSysParamsRealm")
			ok := false
			for _, a := range as {
				if g.Dominates(a, site) {
					ok = true
				}
			}
			kcAt(c, p, "sys-gate", f.Name, site.Pos(), ok, "assertSysParamsRealm(m) must dominate the write")
		}
	}
	c.Floor("native-key", nn, 14)

	// pkey
	if f := c.MustFunc(c13CP + ".pkey"); f != nil {
		info := f.Info()
		g := f.Graph()
		key := kcParam(f, "key")
		exits := kcNormalExits(f)
		c.Floor("realm-key", len(exits), 1)
		for _, ex := range exits {
			var noColon, nonEmpty bool
			for _, ft := range append(kcFacts(g, ex), kcTopPanicFacts(f, ex, c13NoRet...)...) {
				if call := kcIsCallTo(info, ft.Expr, "strings.Contains", "strings.ContainsRune", "strings.ContainsAny"); call != nil && !ft.Val && len(call.Args) == 2 && engine.ObjOf(info, call.Args[0]) == key {
					if s, ok := kcStrLit(info, call.Args[1]); ok && s == ":" {
						noColon = true
					}
				}
				x, y, op, ok := kcCmp(ft)
				if ok && (op == token.NEQ || op == token.GTR) && engine.IsLenOf(info, x, key) && kcConstIs(info, y, "0") {
					nonEmpty = true
				}
				if ok && op == token.NEQ && engine.ObjOf(info, x) == key && kcIsIdent(x) && kcConstIs(info, y, `""`) {
					nonEmpty = true
				}
			}
			kcAt(c, p, "realm-key", f.Name+" rejects ':' in key", ex.Pos(), noColon, "pkey must return only when !strings.Contains(key, \":\")")
			kcAt(c, p, "realm-key", f.Name+" rejects empty key", ex.Pos(), nonEmpty, "pkey must return only for a non-empty key")
			// return value
			rs, isRet := ex.Node.(*ast.ReturnStmt)
			ok, why := false, "return value is not \"vm:\" + <current realm path> + \":\" + key (as Sprintf or concatenation)"
			if isRet && len(rs.Results) == 1 {
				// normalise to a sequence of constant strings and variables
				var seq []ast.Expr // variables; consts collected in lits (lits[i] precedes seq[i])
				var lits []string
				cur := ""
				val := kcResolve(f, rs.Results[0])
				if call := kcIsCallTo(info, val, "fmt.Sprintf"); call != nil && len(call.Args) >= 1 {
					if fs, okf := kcStrLit(info, call.Args[0]); okf && strings.Count(fs, "%s") == len(call.Args)-1 && strings.Count(fs, "%") == len(call.Args)-1 {
						parts := strings.Split(fs, "%s")
						for i, a := range call.Args[1:] {
							lits = append(lits, parts[i])
							seq = append(seq, a)
						}
						cur = parts[len(parts)-1]
					}
				} else {
					for _, part := range kcConcatParts(val) {
						if sv, isC := kcStrLit(info, part); isC {
							cur += sv
							continue
						}
						lits = append(lits, cur)
						cur = ""
						seq = append(seq, part)
					}
				}
				if len(seq) == 2 && cur == "" && lits[0] == "vm:" && lits[1] == ":" && engine.ObjOf(info, seq[1]) == key && kcIsIdent(seq[1]) {
					ro := engine.ObjOf(info, seq[0])
					rd := kcSingleDef(f, ro)
					if rc := kcIsCallTo(info, rd, "gnovm/stdlibs/internal/execctx.CurrentRealm"); rc != nil && ro != nil {
						// the realm path must be the 2nd result
						engine.InspectBody(f, func(n ast.Node) {
							as, isAs := n.(*ast.AssignStmt)
							if isAs && len(as.Lhs) == 2 && len(as.Rhs) == 1 && ast.Unparen(as.Rhs[0]) == rc && engine.ObjOf(info, as.Lhs[1]) == ro {
								ok = true
							}
						})
					} else {
						why = "the realm path is `" + engine.ExprString(rd) + "`, expected the 2nd result of execctx.CurrentRealm(m)"
					}
				}
			}
			kcAt(c, p, "realm-key", f.Name+" prefixes vm:<current realm>:", ex.Pos(), ok, why)
		}
		if key != nil {
			rhs, okd := kcDefs(f, key)
			kcAt(c, p, "realm-key", f.Name+" key not reassigned", f.Pos(), okd && len(rhs) == 0, "")
		}
	}
	// prmkey
	if f := c.MustFunc(c13SP + ".prmkey"); f != nil {
		info := f.Info()
		g := f.Graph()
		name, sub := kcParam(f, "name"), kcParam(f, "submodule")
		for _, ex := range kcNormalExits(f) {
			var noColon, subOK bool
			for _, ft := range kcFacts(g, ex) {
				if call := kcIsCallTo(info, ft.Expr, "strings.Contains"); call != nil && !ft.Val && len(call.Args) == 2 && engine.ObjOf(info, call.Args[0]) == name {
					if s, ok := kcStrLit(info, call.Args[1]); ok && s == ":" {
						noColon = true
					}
				}
				x, y, op, ok := kcCmp(ft)
				if ok && op == token.NEQ && engine.ObjOf(info, x) == sub {
					if s, oks := kcStrLit(info, y); oks && s == "" {
						subOK = true
					}
				}
			}
			kcAt(c, p, "sys-key", f.Name+" rejects ':' in name", ex.Pos(), noColon, "")
			kcAt(c, p, "sys-key", f.Name+" rejects empty submodule", ex.Pos(), subOK, "")
		}
	}
	// assertSysParamsRealm
	if f := c.MustFunc(c13SP + ".assertSysParamsRealm"); f != nil {
		info := f.Info()
		g := f.Graph()
		exits := kcNormalExits(f)
		c.Floor("sys-gate wrapper", len(exits), 1)
		for _, ex := range exits {
			ok := false
			for _, ft := range kcFacts(g, ex) {
				x, y, op, okc := kcCmp(ft)
				if !okc || op != token.EQL {
					continue
				}
				s, oks := kcStrLit(info, y)
				if !oks || s != "gno.land/r/sys/params" {
					continue
				}
				// x == m.Frames[len(m.Frames)-2].LastPackage.PkgPath
				s1, ok1 := x.(*ast.SelectorExpr)
				if !ok1 || s1.Sel.Name != "PkgPath" {
					continue
				}
				s2, ok2 := ast.Unparen(s1.X).(*ast.SelectorExpr)
				if !ok2 || s2.Sel.Name != "LastPackage" {
					continue
				}
				ix, ok3 := ast.Unparen(s2.X).(*ast.IndexExpr)
				if !ok3 {
					continue
				}
				fr, ok4 := ast.Unparen(ix.X).(*ast.SelectorExpr)
				if !ok4 || fr.Sel.Name != "Frames" || engine.ObjOf(info, fr.X) != paramObj(f, 0) {
					continue
				}
				be, ok5 := ast.Unparen(ix.Index).(*ast.BinaryExpr)
				if !ok5 || be.Op != token.SUB {
					continue
				}
				if lit, isLit := be.Y.(*ast.BasicLit); !isLit || lit.Value != "2" {
					continue
				}
				if lc, isCall := ast.Unparen(be.X).(*ast.CallExpr); isCall && engine.IsBuiltinCall(info, lc, "len") && engine.ExprString(lc.Args[0]) == engine.ExprString(ix.X) {
					ok = true
				}
			}
			kcAt(c, p, "sys-gate", f.Name+" returns only for gno.land/r/sys/params", ex.Pos(), ok, "the caller-package test m.Frames[len(m.Frames)-2].LastPackage.PkgPath == \"gno.land/r/sys/params\" must gate every normal return, un-weakened")
		}
	}
}

func c13sdk(c *engine.Ctx, p *engine.Prog) {
	S := c08VM + ".(*SDKParams)."
	// mustHaveModuleKeeper
	if f := c.MustFunc(S + "mustHaveModuleKeeper"); f != nil {
		g := f.Graph()
		key := kcParam(f, "key")
		for _, ex := range kcNormalExits(f) {
			var colon, reg bool
			facts := kcFacts(g, ex)
			for _, ft := range facts {
				call, isCall := ast.Unparen(ft.Expr).(*ast.CallExpr)
				if !isCall || !ft.Val || len(call.Args) != 1 {
					continue
				}
				if se, isSel := call.Fun.(*ast.SelectorExpr); !isSel || se.Sel.Name != "IsRegistered" {
					continue
				}
				reg = true
				if c13module(f, call.Args[0], key, facts, 2) {
					colon = true
				}
			}
			kcAt(c, p, "module-registered", f.Name+" requires <module>: prefix", ex.Pos(), colon, "the name tested must be the non-empty text of key before its first ':' (key[:strings.Index(key, \":\")] with index > 0, or strings.Cut with found && name != \"\")")
			kcAt(c, p, "module-registered", f.Name+" requires a registered module", ex.Pos(), reg, "must return only when pmk.IsRegistered(<module of key>) (un-weakened)")
		}
	}
	// setWithCheck
	if f := c.MustFunc(S + "setWithCheck"); f != nil {
		info := f.Info()
		g := f.Graph()
		key, set := kcParam(f, "key"), kcParam(f, "set")
		n := 0
		for _, s := range f.Calls() {
			if s.Call == nil || engine.ObjOf(info, s.Call.Fun) != set {
				continue
			}
			n++
			ok := false
			for _, a := range f.CallsTo(S + "mustHaveModuleKeeper") {
				if g.Dominates(a, s) && engine.ObjOf(info, kcArg(a, 0)) == key {
					ok = true
				}
			}
			kcAt(c, p, "module-registered", f.Name+" checks before running the write", s.Pos(), ok, "mustHaveModuleKeeper(key) must dominate set()")
		}
		c.Floor("module-registered setWithCheck", n, 1)
	}
	// the six setters
	n := 0
	for _, m := range []string{"SetString", "SetBool", "SetInt64", "SetUint64", "SetBytes", "SetStrings"} {
		f := c.MustFunc(S + m)
		if f == nil {
			continue
		}
		key := kcParam(f, "key")
		for _, s := range f.CallsToDeep("." + m) {
			if !strings.Contains(s.CalleeName(), "ParamsKeeperI") {
				continue
			}
			n++
			fn := s.Fn
			ok, why := false, ""
			switch {
			case engine.ObjOf(fn.Info(), kcArg(s, 1)) != key:
				why = "the keeper is written under `" + engine.ExprString(kcArg(s, 1)) + "`, not the checked key parameter"
			case fn == f:
				// direct call in the method body: must be dominated by mustHaveModuleKeeper(key)
				for _, a := range f.CallsTo(S + "mustHaveModuleKeeper") {
					if f.Graph().Dominates(a, s) && engine.ObjOf(f.Info(), kcArg(a, 0)) == key {
						ok = true
					}
				}
				why = "keeper write not dominated by mustHaveModuleKeeper(key)"
			default:
				// inside a closure: the closure must be the argument of setWithCheck(key, …) and nothing else
				lit := fn
				for lit.Parent != nil && lit.Parent != f {
					lit = lit.Parent
				}
				why = "the closure performing the write is not (only) passed to setWithCheck(key, …)"
				uses := 0
				for _, sc := range f.Calls() {
					if sc.Call == nil {
						continue
					}
					for i, a := range sc.Call.Args {
						if ast.Unparen(a) == lit.Lit {
							uses++
							if sc.CalleeName() == S+"setWithCheck" && i == 1 && engine.ObjOf(f.Info(), kcArg(sc, 0)) == key {
								ok = true
							} else {
								ok = false
								uses = 99
							}
						}
					}
				}
				if uses != 1 {
					ok = false
				}
			}
			if rhs, okd := kcDefs(f, key); !okd || len(rhs) != 0 {
				ok, why = false, "key parameter reassigned"
			}
			kcAt(c, p, "module-registered", f.Name, s.Pos(), ok, why)
		}
	}
	c.Floor("module-registered setters", n, 6)
	// UpdateStrings
	if f := c.MustFunc(S + "UpdateStrings"); f != nil {
		key := kcParam(f, "key")
		g := f.Graph()
		ws := f.CallsTo(S + "SetStrings")
		c.Floor("module-registered UpdateStrings", len(ws), 2)
		for _, s := range ws {
			kcAt(c, p, "module-registered", f.Name+" writes the key it was given", s.Pos(), engine.ObjOf(f.Info(), kcArg(s, 0)) == key, "")
		}
		for _, s := range f.Calls() {
			if strings.Contains(s.CalleeName(), "ParamsKeeperI).Set") {
				kcAt(c, p, "module-registered", f.Name+" direct keeper write", s.Pos(), false, "UpdateStrings must write through SetStrings")
			}
			if strings.Contains(s.CalleeName(), "ParamsKeeperI).Get") {
				ok := false
				for _, a := range f.CallsTo(S + "mustHaveModuleKeeper") {
					if g.Dominates(a, s) {
						ok = true
					}
				}
				kcAt(c, p, "module-registered", f.Name+" checks before reading the list", s.Pos(), ok, "")
			}
		}
	}
}

func c13keeper(c *engine.Ctx, p *engine.Prog) {
	K := c13PK + ".(ParamsKeeper)."
	// store writers in the params package
	refs := p.RefsTo(func(o types.Object) bool {
		fn, ok := o.(*types.Func)
		if !ok || (fn.Name() != "Set" && fn.Name() != "Delete") {
			return false
		}
		n := engine.FuncName(fn)
		return strings.HasPrefix(n, "tm2/pkg/store/types.(Store).") || strings.HasPrefix(n, "tm2/pkg/store.(Store).")
	})
	var inPkg []engine.Ref
	for _, r := range refs {
		if r.Fn != nil && r.Fn.Pkg.PkgPath == engine.ModPrefix+c13PK && !kcInTestSupport(p, r.Fn) {
			inPkg = append(inPkg, r)
		}
	}
	kcCallerTable(c, p, "who-may-call", "store writes inside "+c13PK, inPkg, []string{K + "set", K + "SetBytes", K + "SetStruct"}, []string{K + "set", K + "SetBytes", K + "SetStruct"})

	for _, nm := range []string{"set", "SetBytes"} {
		f := c.MustFunc(K + nm)
		if f == nil {
			continue
		}
		info := f.Info()
		g := f.Graph()
		key, value := kcParam(f, "key"), kcParam(f, "value")
		n := 0
		for _, s := range f.Calls() {
			cn := s.CalleeName()
			if !(strings.HasSuffix(cn, "(Store).Set") || strings.HasSuffix(cn, "(Store).Delete")) {
				continue
			}
			n++
			ok, why := false, "no dominating pk.validate(ctx, key, value)"
			for _, v := range f.CallsTo(K + "validate") {
				if g.Dominates(v, s) {
					if engine.ObjOf(info, kcArg(v, 1)) == key && engine.ObjOf(info, kcArg(v, 2)) == value {
						ok = true
					} else {
						why = "validate is applied to other arguments than the key/value written"
					}
				}
			}
			// the store key derives from the same key
			sk := kcResolve(f, kcArg(s, 1))
			if call := kcIsCallTo(info, sk, c13PK+".storeKey"); call == nil || engine.ObjOf(info, call.Args[0]) != key {
				ok, why = false, "the store key written is not storeKey(key) of the validated key"
			}
			kcAt(c, p, "validate-before-write", f.Name+" "+cn[strings.LastIndexByte(cn, '.')+1:], s.Pos(), ok, why)
		}
		c.Floor("validate-before-write "+nm, n, 1)
		for _, o := range []types.Object{key, value} {
			if o != nil {
				if rhs, okd := kcDefs(f, o); !okd || len(rhs) != 0 {
					kcAt(c, p, "validate-before-write", f.Name+" parameter "+o.Name()+" unmodified", f.Pos(), false, "parameter reassigned between validation and write")
				}
			}
		}
	}
	// validate reaches WillSetParam
	if f := c.MustFunc(K + "validate"); f != nil {
		info := f.Info()
		g := f.Graph()
		key, value := kcParam(f, "key"), kcParam(f, "value")
		ws := f.CallsTo(c13PK + ".(ParamfulKeeper).WillSetParam")
		c.Floor("validate-reaches-module", len(ws), 1)
		for _, ex := range kcNormalExits(f) {
			passed := g.MustPass(ex, ws)
			noMod := false
			for _, ft := range kcFacts(g, ex) {
				x, y, op, okc := kcCmp(ft)
				if okc && op == token.EQL {
					if s, oks := kcStrLit(info, y); oks && s == "" {
						if d := kcSingleDef(f, engine.ObjOf(info, x)); d != nil && kcIsCallTo(info, d, c13PK+".parsePrefix") != nil {
							noMod = true
						}
					}
				}
			}
			kcAt(c, p, "validate-reaches-module", f.Name+" normal return", ex.Pos(), passed || noMod, "validate may return only after the module's WillSetParam ran, or for a key without module prefix")
		}
		for _, w := range ws {
			// keeper is the registered one for the key's module, value is the parameter
			okK := false
			if se, isSel := w.Call.Fun.(*ast.SelectorExpr); isSel {
				kd := kcSingleDef(f, engine.ObjOf(info, se.X))
				if kc := kcIsCallTo(info, kd, K+"GetRegisteredKeeper"); kc != nil {
					md := kcSingleDef(f, engine.ObjOf(info, kc.Args[0]))
					if pc := kcIsCallTo(info, md, c13PK+".parsePrefix"); pc != nil && engine.ObjOf(info, pc.Args[0]) == key {
						okK = true
					}
				}
				// registered test gates the call
				regOK := false
				for _, ft := range kcFacts(g, w) {
					if id, isID := ft.Expr.(*ast.Ident); isID && ft.Val {
						if d := kcSingleDef(f, info.ObjectOf(id)); d != nil && kcIsCallTo(info, d, K+"GetRegisteredKeeper") != nil {
							regOK = true
						}
					}
				}
				okK = okK && regOK
			}
			kcAt(c, p, "validate-reaches-module", f.Name+" dispatches to the keeper registered for the key's module", w.Pos(), okK && engine.ObjOf(info, kcArg(w, 2)) == value, "")
		}
	}
	// parsePrefix splits at the first colon
	if f := c.MustFunc(c13PK + ".parsePrefix"); f != nil {
		cuts := f.CallsTo("strings.Cut")
		ok := len(cuts) == 1
		if ok {
			s, oks := kcStrLit(f.Info(), kcArg(cuts[0], 1))
			ok = oks && s == ":" && engine.ObjOf(f.Info(), kcArg(cuts[0], 0)) == paramObj(f, 0)
		}
		kcAt(c, p, "validate-reaches-module", f.Name+" module is the text before the first ':'", f.Pos(), ok, "")
	}
	// SetStruct: registered module required
	if f := c.MustFunc(K + "SetStruct"); f != nil {
		g := f.Graph()
		n := 0
		for _, s := range f.Calls() {
			if !strings.HasSuffix(s.CalleeName(), "(Store).Set") {
				continue
			}
			n++
			ok := false
			for _, ft := range kcFacts(g, s) {
				if call, isCall := ast.Unparen(ft.Expr).(*ast.CallExpr); isCall && ft.Val {
					if se, isSel := call.Fun.(*ast.SelectorExpr); isSel && se.Sel.Name == "IsRegistered" {
						ok = true
					}
				}
			}
			kcAt(c, p, "validate-before-write", f.Name+" requires a registered module", s.Pos(), ok, "")
		}
		c.Floor("validate-before-write SetStruct", n, 1)
	}
}

func c13modules(c *engine.Ctx, p *engine.Prog) {
	// SetParams: store only after Validate() == nil
	type mod struct{ setParams, willSet string }
	mods := []mod{
		{c08VM + ".(*VMKeeper).SetParams", c08VM + ".(*VMKeeper).WillSetParam"},
		{c08Bank + ".(BankKeeper).SetParams", c08Bank + ".(BankKeeper).WillSetParam"},
		{"tm2/pkg/sdk/auth.(AccountKeeper).SetParams", "tm2/pkg/sdk/auth.(AccountKeeper).WillSetParam"},
	}
	for _, m := range mods {
		if f := c.MustFunc(m.setParams); f != nil {
			info := f.Info()
			g := f.Graph()
			pr := kcParam(f, "params")
			n := 0
			for _, s := range f.Calls() {
				if !strings.HasSuffix(s.CalleeName(), ".SetStruct") {
					continue
				}
				n++
				ok, why := false, "no dominating, checked params.Validate()"
				for _, v := range f.CallsTo(".Validate") {
					se, isSel := v.Call.Fun.(*ast.SelectorExpr)
					if !isSel || engine.ObjOf(info, se.X) != pr {
						continue
					}
					if r := g.CheckedGuard(v, s); r.OK && c09errNilSide(r) {
						ok = true
					}
				}
				if ok && (engine.ObjOf(info, kcArg(s, 2)) != pr || pr == nil) {
					ok, why = false, "the struct stored is not the validated params value"
				}
				if rhs, okd := kcDefs(f, pr); pr != nil && (!okd || len(rhs) != 0) {
					ok, why = false, "params reassigned"
				}
				kcAt(c, p, "setparams-validated", f.Name, s.Pos(), ok, why)
			}
			c.Floor("setparams-validated "+m.setParams, n, 1)
		}
		if f := c.MustFunc(m.willSet); f != nil {
			info := f.Info()
			g := f.Graph()
			key := kcParam(f, "key")
			exits := kcNormalExits(f)
			c.Floor("willset-validates "+m.willSet, len(exits), 1)
			for _, ex := range exits {
				ok, why := false, "a normal return is not preceded by a successful params.Validate()"
				for _, v := range f.CallsTo(".Validate") {
					if r := g.CheckedGuard(v, ex); r.OK && c09errNilSide(r) {
						// the validated struct is the one loaded by GetParams and patched in the switch
						if se, isSel := v.Call.Fun.(*ast.SelectorExpr); isSel {
							if d := kcSingleDef(f, engine.ObjOf(info, se.X)); d != nil && strings.HasSuffix(engine.ExprString(ast.Unparen(d).(*ast.CallExpr).Fun), "GetParams") {
								ok = true
							}
						}
					}
				}
				if !ok {
					// allowed only for keys outside the module's own "p:" namespace (vm realm-scoped keys)
					_, isDef, found := kcClauseOf(f, ex.Node, key)
					if found && isDef {
						for _, ft := range kcFacts(g, ex) {
							if call := kcIsCallTo(info, ft.Expr, "strings.HasPrefix"); call != nil && !ft.Val && len(call.Args) == 2 && engine.ObjOf(info, call.Args[0]) == key {
								if s, oks := kcStrLit(info, call.Args[1]); oks && s == "p:" {
									ok = true
								} else {
									why = "unvalidated return for keys not starting with `" + s + "` (the module namespace is \"p:\")"
								}
							}
						}
					}
				}
				kcAt(c, p, "willset-validates", f.Name+" normal return", ex.Pos(), ok, why)
			}
			if key != nil {
				if rhs, okd := kcDefs(f, key); !okd || len(rhs) != 0 {
					kcAt(c, p, "willset-validates", f.Name+" key unmodified", f.Pos(), false, "")
				}
			}
		}
	}
	// Go-side writers of the params keeper (all interfaces it is reachable through)
	pk := p.Named(c13PK + ".ParamsKeeper")
	if pk == nil {
		c.Undecided("anchor", c13PK+".ParamsKeeper", "type not found")
		return
	}
	K := c13PK + ".(ParamsKeeper)."
	PP := c13PK + ".(prefixParamsKeeper)."
	S := c08VM + ".(*SDKParams)."
	allow := []string{
		S + "SetString", S + "SetBool", S + "SetInt64", S + "SetUint64", S + "SetBytes", S + "SetStrings",
		c08VM + ".FlushParamsRealmAccum",
		K + "SetAny", PP + "SetString", PP + "SetBool", PP + "SetInt64", PP + "SetUint64", PP + "SetBytes", PP + "SetStrings",
		"tm2/pkg/sdk/auth.(AccountKeeper).SetFeesCollectorAddress", // Go API, no in-repo production caller
		c08Bank + ".(BankKeeper).SetRestrictedDenoms",              // Go API (init-chain/testing convenience)
		"gno.land/pkg/gnoland.(InitChainerConfig).InitChainer",     // genesis: valset:current, allowed key types
		"gno.land/pkg/gnoland.EndBlocker",                          // node module: valset bookkeeping
	}
	refs := kcFilterRefs(p, kcMethodRefs(p, pk, "SetString", "SetBool", "SetInt64", "SetUint64", "SetBytes", "SetStrings"))
	callers := engine.CallerSet(refs)
	c13table(c, p, "params keeper typed setters", callers, allow)
	refs = kcFilterRefs(p, kcMethodRefs(p, pk, "SetStruct"))
	c13table(c, p, "params keeper SetStruct", engine.CallerSet(refs), []string{mods[0].setParams, mods[1].setParams, mods[2].setParams, PP + "SetStruct"})
	refs = kcFilterRefs(p, kcMethodRefs(p, pk, "SetAny"))
	c13table(c, p, "params keeper SetAny", engine.CallerSet(refs), []string{c08VM + ".(*VMKeeper).InitGenesis", PP + "SetAny"})
	refs = kcFilterRefs(p, kcMethodRefs(p, pk, "Register"))
	c13table(c, p, "params keeper Register", engine.CallerSet(refs), []string{"gno.land/pkg/gnoland.NewAppWithOptions"})
}

func c13table(c *engine.Ctx, p *engine.Prog, key string, callers, allow []string) {
	extra := engine.SetDiff(callers, allow)
	c.CheckAt("who-may-call", key, "-", len(extra) == 0 && len(callers) > 0, "referenced from "+join(callers)+"; not in the confirmed table: "+join(extra))
}

// c13module decides whether e denotes, under the given facts of fn, the
// non-empty text of the string variable key before its first ':':
//   - key[:idx] with idx := strings.Index(key, ":") and the fact idx > 0;
//   - the first result of strings.Cut(key, ":") with the facts found and name != "";
//   - a call of an in-program function passing key whose every return value is such a value
//     (under the facts holding at that return).
func c13module(fn *engine.Fn, e ast.Expr, key types.Object, facts []kcFact, depth int) bool {
	if key == nil || depth < 0 {
		return false
	}
	info := fn.Info()
	e = ast.Unparen(e)
	isColon := func(x ast.Expr) bool { s, ok := kcStrLit(info, x); return ok && s == ":" }
	switch x := e.(type) {
	case *ast.Ident:
		obj := info.ObjectOf(x)
		if d := kcPlainDef(fn, obj); d != nil {
			return c13module(fn, d, key, facts, depth)
		}
		// first result of strings.Cut(key, ":")
		ok := false
		engine.InspectBody(fn, func(n ast.Node) {
			as, isAs := n.(*ast.AssignStmt)
			if !isAs || len(as.Lhs) != 3 || len(as.Rhs) != 1 || engine.ObjOf(info, as.Lhs[0]) != obj {
				return
			}
			call := kcIsCallTo(info, as.Rhs[0], "strings.Cut")
			if call == nil || len(call.Args) != 2 || engine.ObjOf(info, call.Args[0]) != key || !isColon(call.Args[1]) {
				return
			}
			found := engine.ObjOf(info, as.Lhs[2])
			var okFound, okNonEmpty bool
			for _, ft := range facts {
				if id, isID := ft.Expr.(*ast.Ident); isID && ft.Val && info.ObjectOf(id) == found && found != nil {
					okFound = true
				}
				a, b, op, okc := kcCmp(ft)
				if okc && op == token.NEQ && engine.ObjOf(info, a) == obj && kcIsIdent(a) && kcConstIs(info, b, `""`) {
					okNonEmpty = true
				}
				if okc && op == token.GTR && engine.IsLenOf(info, a, obj) && kcConstIs(info, b, "0") {
					okNonEmpty = true
				}
			}
			if rhs, okd := kcDefs(fn, obj); okFound && okNonEmpty && okd && len(rhs) == 1 {
				ok = true
			}
		})
		return ok
	case *ast.SliceExpr:
		if x.Low != nil || x.High == nil || engine.ObjOf(info, x.X) != key {
			return false
		}
		io := engine.ObjOf(info, x.High)
		ic := kcIsCallTo(info, kcPlainDef(fn, io), "strings.Index")
		if ic == nil || len(ic.Args) != 2 || engine.ObjOf(info, ic.Args[0]) != key || !isColon(ic.Args[1]) {
			return false
		}
		for _, ft := range facts {
			a, b, op, okc := kcCmp(ft)
			if okc && op == token.GTR && engine.ObjOf(info, a) == io && kcConstIs(info, b, "0") {
				return true
			}
		}
		return false
	case *ast.CallExpr:
		var callee *types.Func
		switch f := ast.Unparen(x.Fun).(type) {
		case *ast.Ident:
			callee, _ = info.Uses[f].(*types.Func)
		case *ast.SelectorExpr:
			callee, _ = info.Uses[f.Sel].(*types.Func)
		}
		h := fn.Prog.FnOf(callee)
		if h == nil || h == fn {
			return false
		}
		var hk types.Object
		for i, a := range x.Args {
			if engine.ObjOf(info, a) == key && kcIsIdent(a) {
				hk = paramObj(h, i)
			}
		}
		if hk == nil {
			return false
		}
		if rhs, okd := kcDefs(h, hk); !okd || len(rhs) != 0 {
			return false
		}
		exits := kcNormalExits(h)
		if len(exits) == 0 {
			return false
		}
		for _, ex := range exits {
			rs, isRet := ex.Node.(*ast.ReturnStmt)
			if !isRet || len(rs.Results) != 1 {
				return false
			}
			if !c13module(h, rs.Results[0], hk, kcFacts(h.Graph(), ex), depth-1) {
				return false
			}
		}
		return true
	}
	return false
}
