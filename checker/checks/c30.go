package checks

import (
	"go/ast"
	"go/token"
	"strings"

	"gnoverif/engine"
)

// C30 — IAVL: saved versions are immutable (copy-on-write discipline of
// *Node), the working root is replaced only by a successful operation, the
// hash memo is written only when empty.
func init() {
	register("C30", c30)
	meta("C30", Meta{
		Text:      "Decides structural necessary conditions of 'saved IAVL versions are immutable': (1) copy-on-write discipline over tm2/pkg/iavl by SSA value-origin analysis — every store into a *Node field is on a node allocated/cloned/decoded in that function, on a parameter all of whose in-package callers pass such a node (transitively; calcHeightAndSize), or behind the `nodeKey == nil` gate (balance, the key-assigning closure of saveNewNodes); in-memory child pointers are dropped (set to nil) only on persisted nodes or in the two listed post-save places; key/value bytes are never written in place; (2) the hash memo is written only behind an `if node.hash != nil { return }` test, by a closed writer set; (3) mutators with a freshness contract are called directly and only inside the package; MutableTree.Set/Remove assign the working root only from the recursive operation and Remove only behind its error test; SaveVersion moves version/lastSaved only after a checked ndb.Commit, and a success exit that does not pass Commit (idempotent re-save) replaces the working root by the root loaded from the node DB (GetNode of GetRoot); Rollback restores root from lastSaved. Level 'other': code shape, not AVL balance or proof soundness.",
		Note:      "Not covered: AVL rotation arithmetic and balance invariant, ordered iteration, orphan/pruning correctness of nodedb, ICS23/legacy proof soundness, fast-node cache coherence. Fields hash and isLegacy are treated as memo/format flags (hash has its own rule).",
		Technique: "go/ssa value-origin (freshness) analysis with interprocedural parameter contracts; go/cfg gates; who-may-write tables",
		Ref:       "DESIGN.md §2 C23/C30",
	})
	const mt = "tm2/pkg/iavl/mutable_tree.go"
	const nd = "tm2/pkg/iavl/node.go"
	mutants("C30",
		Mutant{"set-no-clone", mt, "\tnode, err = node.clone(tree)\n\tif err != nil {\n\t\treturn nil, false, err\n\t}\n\n\tif bytes.Compare(key, node.key) < 0 {\n\t\tnode.leftNode, updated, err", "\tif bytes.Compare(key, node.key) < 0 {\n\t\tnode.leftNode, updated, err", "fresh-"},
		Mutant{"rotate-no-clone-child", mt, "\tnewNode, err := node.leftNode.clone(tree)\n\tif err != nil {\n\t\treturn nil, err\n\t}\n\n\tnode.leftNode = newNode.rightNode", "\tnewNode := node.leftNode\n\n\tnode.leftNode = newNode.rightNode", "fresh-write tm2/pkg/iavl.(*MutableTree).rotateRight"},
		Mutant{"balance-ungated", mt, "\tif node.nodeKey != nil {\n\t\treturn nil, fmt.Errorf(\"unexpected balance() call on persisted node\")\n\t}", "\tif node.nodeKey != nil && tree == nil {\n\t\treturn nil, fmt.Errorf(\"unexpected balance() call on persisted node\")\n\t}", "fresh-write tm2/pkg/iavl.(*MutableTree).balance"},
		Mutant{"assignkey-ungated", mt, "\t\tif node.nodeKey != nil {\n\t\t\treturn node.GetKey(), nil\n\t\t}\n\t\tnonce++", "\t\tif node.nodeKey != nil && nonce > 1<<30 {\n\t\t\treturn node.GetKey(), nil\n\t\t}\n\t\tnonce++", "fresh-write tm2/pkg/iavl.(*MutableTree).saveNewNodes$1"},
		Mutant{"get-memoises-child", nd, "\tleftNode, err := t.ndb.GetNode(node.leftNodeKey)\n\tif err != nil {\n\t\treturn nil, err\n\t}\n\treturn leftNode, nil", "\tleftNode, err := t.ndb.GetNode(node.leftNodeKey)\n\tif err != nil {\n\t\treturn nil, err\n\t}\n\tnode.leftNode = leftNode\n\treturn leftNode, nil", "fresh-"},
		Mutant{"clone-evicts-dirty", nd, "\t\tnode.leftNode = nil\n\t\tnode.rightNode = nil\n\t}\n\n\treturn &Node{", "\t}\n\tnode.leftNode = nil\n\tnode.rightNode = nil\n\n\treturn &Node{", "fresh-"},
		Mutant{"hash-memo-unconditional", nd, "func (node *Node) _hash(version int64) []byte {\n\tif node.hash != nil {\n\t\treturn node.hash\n\t}\n", "func (node *Node) _hash(version int64) []byte {\n", "fresh-write tm2/pkg/iavl.(*Node)._hash writes Node.hash"},
		Mutant{"remove-publishes-on-error", mt, "\tnewRoot, _, value, removed, err := tree.recursiveRemove(tree.root, key)\n\tif err != nil {\n\t\treturn nil, false, err\n\t}", "\tnewRoot, _, value, removed, err := tree.recursiveRemove(tree.root, key)\n\tif err != nil && newRoot == nil {\n\t\treturn nil, false, err\n\t}", "publish-gated"},
		Mutant{"idempotent-save-keeps-working-nodes", mt, "\t\t\ttree.root = existingRoot\n", "", "save-adopts-persisted"},
		Mutant{"idempotent-save-adopts-other-root", mt, "\t\t\ttree.root = existingRoot\n", "\t\t\ttree.root = tree.lastSaved.root\n", "save-adopts-persisted"},
		Mutant{"rollback-keeps-root", mt, "\t\ttree.ImmutableTree = tree.lastSaved.clone()", "\t\ttree.lastSaved = tree.lastSaved.clone()", "rollback-restores"},
	)
}

func c30(c *engine.Ctx) {
	c.Explain = "Decides, for tm2/pkg/iavl: (1) R-FRESH — every store into a *Node field is on a node fresh in the storing function (allocated, clone(), NewNode, MakeNode), a parameter whose callers all pass fresh nodes, or behind the nodeKey==nil gate (balance, saveNewNodes' key-assigning closure); child pointers are nil-ed only on persisted nodes / after save; no in-place byte writes into key/value; (2) hash memo written only when empty; (3) contract functions called directly inside the package; Set/Remove root publication, SaveVersion ordering after a checked Commit, Rollback from lastSaved. Not covered: AVL balance arithmetic, iteration order, nodedb pruning, proof soundness."
	p := c.Load("tm2/pkg/iavl", "tm2/pkg/store/iavl")
	if p == nil {
		return
	}
	const P = "tm2/pkg/iavl."
	const T = P + "(*MutableTree)."
	cfg := tgFreshCfg{
		Pkg:       "tm2/pkg/iavl",
		NodeTypes: []string{"Node"},
		ExemptFields: map[string]string{
			"Node.isLegacy": "storage-format flag flipped when a legacy root is re-saved; not part of the map content or hash",
		},
		Producers: map[string][]int{
			P + "(*Node).clone":  {0},
			P + "NewNode":        nil,
			P + "MakeNode":       {0},
			P + "MakeLegacyNode": {0},
		},
		DirtyGate:   map[string]int{T + "balance": 1, T + "saveNewNodes$1": 0},
		KeyField:    "nodeKey",
		EvictFields: map[string]bool{"Node.leftNode": true, "Node.rightNode": true},
		EvictOK: map[string]string{
			T + "saveNewNodes":    "after ndb.SaveNode: child keys were assigned by the closure, pointers are only a cache",
			P + "(*Importer).Add": "children were just handed to writeNode; their keys are kept in leftNodeKey/rightNodeKey",
		},
		MemoFields:   map[string]bool{"Node.hash": true},
		ContentSlice: map[string]bool{"Node.key": true, "Node.value": true, "Node.leftNodeKey": true, "Node.rightNodeKey": true},
	}
	a := tgNewFresh(c, p, cfg)
	if a != nil {
		a.Run("fresh-write", "fresh-arg", "slot-fresh", "no-inplace-bytes")
		c.Floor("fresh-write", a.NWrites, 25)
		c.Floor("fresh-arg", a.NArgs, 6)
		// derived set: private helpers that forward their parameter to a mutator are mutators too
		got := a.ContractNames()
		extra := a.ExportedContracts()
		has := false
		for _, g := range got {
			if g == P+"(*Node).calcHeightAndSize" {
				has = true
			}
		}
		c.Check("contract-set", "tm2/pkg/iavl mutators requiring a fresh node", token.NoPos, len(extra) == 0 && has,
			"functions that write through a parameter (derived): "+join(got)+"; exported ones (none allowed): "+join(extra))
		for _, name := range got {
			callers, nonCalls := tgCallersOf(p, name)
			var outside []string
			for _, cl := range callers {
				if !strings.HasPrefix(cl, P) {
					outside = append(outside, cl)
				}
			}
			c.Check("contract-callers", name, token.NoPos, len(nonCalls) == 0 && len(outside) == 0, "referenced from "+join(callers)+"; as a value in: "+join(nonCalls)+"; outside the package: "+join(outside))
		}
	}

	// ---- (2) hash memo: closed writer set (the gate itself is decided by R-FRESH's memo rule)
	hashF := p.Field(P + "Node.hash")
	if hashF == nil {
		c.Undecided("anchor", P+"Node.hash", "field not found")
		return
	}
	{
		tgTableWriters(c, p, "hash-memo", "writers of Node.hash", p.FieldWrites(hashF), func(w engine.Write) bool { return w.Kind != "lit" }, []string{P + "(*Node)._hash", P + "(*Node).hashWithCount", P + "MakeNode"})
	}

	// ---- (3) root publication
	rootF := p.Field(P + "ImmutableTree.root")
	lastF := p.Field(P + "MutableTree.lastSaved")
	verF := p.Field(P + "ImmutableTree.version")
	if rootF == nil || lastF == nil || verF == nil {
		c.Undecided("anchor", P+"ImmutableTree.root/MutableTree.lastSaved", "field not found")
		return
	}
	{
		tgTableWriters(c, p, "root-writers", P+"ImmutableTree.root", p.FieldWrites(rootF), func(w engine.Write) bool { return w.Kind != "lit" && w.Direct }, []string{T + "set", T + "Remove", T + "SaveVersion", T + "LoadVersion", T + "LoadVersionForOverwriting", P + "(*Importer).Commit"})
	}
	if f := c.MustFunc(T + "Remove"); f != nil {
		g := f.Graph()
		info := f.Info()
		ops := f.CallsTo(T + "recursiveRemove")
		ws := tgFieldAssigns(f, rootF)
		c.Floor("publish-gated", len(ws)*len(ops), 1)
		for _, w := range ws {
			for _, op := range ops {
				r := g.CheckedGuard(op, w)
				ok := r.OK && tgIsErrTest(info, r.Cond) && !r.OnTrue && len(engine.Atoms(r.Cond)) == 1
				c.Check("publish-gated", f.Name+" root = result of recursiveRemove", w.Pos(), ok, "the working root may be replaced only on the `err == nil` side of recursiveRemove")
			}
		}
	}
	if f := c.MustFunc(T + "set"); f != nil {
		info := f.Info()
		n := 0
		for _, w := range tgFieldAssigns(f, rootF) {
			as := w.Node.(*ast.AssignStmt)
			n++
			ok := false
			for _, r := range as.Rhs {
				if call, isCall := ast.Unparen(r).(*ast.CallExpr); isCall {
					if s := f.SiteOf(call); s != nil && engine.MatchName(s.CalleeName(), T+"recursiveSet", P+"NewNode") {
						ok = true
					}
				}
			}
			_ = info
			c.Check("publish-gated", f.Name+" root from recursiveSet/NewNode", w.Pos(), ok, "root must be assigned from the recursive set or a new leaf")
		}
		c.Floor("publish-gated set", n, 2)
	}
	if f := c.MustFunc(T + "SaveVersion"); f != nil {
		g := f.Graph()
		info := f.Info()
		commits := f.CallsTo(P + "(*nodeDB).Commit")
		c.Floor("save-order commit", len(commits), 1)
		n := 0
		for _, fld := range []struct {
			nm string
			ws []*engine.Site
		}{{"version", tgFieldAssigns(f, verF)}, {"lastSaved", tgFieldAssigns(f, lastF)}} {
			for _, w := range fld.ws {
				if gt, has := tgGateOn(f, w, func(e ast.Expr) bool {
					call, isCall := ast.Unparen(e).(*ast.CallExpr)
					return isCall && strings.HasSuffix(engine.ExprString(call.Fun), "VersionExists")
				}); has && gt.OnTrue {
					continue // idempotent re-save of an existing version with an equal hash
				}
				n++
				ok := false
				for _, cm := range commits {
					if r := g.CheckedGuard(cm, w); r.OK && tgIsErrTest(info, r.Cond) && !r.OnTrue {
						ok = true
					}
				}
				c.Check("save-order", f.Name+" "+fld.nm+" after checked Commit", w.Pos(), ok, "`tree."+fld.nm+" = …` must be reachable only after ndb.Commit() returned nil")
			}
		}
		c.Floor("save-order", n, 2)
	}
	// SaveVersion: every success exit either persisted the working nodes (passes the batch
	// Commit) or replaced the working root by the root loaded from the node DB for that version.
	if f := c.MustFunc(T + "SaveVersion"); f != nil {
		g := f.Graph()
		commits := engine.Outers(f.DeepCallsTo(2, P+"(*nodeDB).Commit"))
		rootAssigns := f.DeepFind(2, func(fn *engine.Fn, n ast.Node) bool {
			as, ok := n.(*ast.AssignStmt)
			if !ok {
				return false
			}
			for _, l := range as.Lhs {
				if tgSelField(fn.Info(), l) == rootF.Origin() {
					return true
				}
			}
			return false
		})
		n := 0
		for _, r := range tgSuccessReturns(f) {
			if g.MustPass(r, commits) {
				continue // the node-saving path
			}
			n++
			ok := false
			why := "a success return of SaveVersion that does not pass ndb.Commit must be dominated by `tree.root = <root loaded from the node DB for this version>`: otherwise never-persisted working nodes (hashed for this version) are carried into the next version"
			for _, d := range rootAssigns {
				if !g.Dominates(d.Outer, r) {
					continue
				}
				as := d.Inner.Node.(*ast.AssignStmt)
				rhs := tgRHSFor(d.Inner.Fn, as, rootF)
				if rhs == nil {
					continue
				}
				// resolve a helper parameter to the argument passed from SaveVersion (one level)
				fn, e := d.Inner.Fn, rhs
				if d.Inner != d.Outer && len(d.Chain) == 1 {
					l := &tgLevel{F: d.Chain[0], Parent: &tgLevel{F: f}, Call: d.Outer.Call, Site: d.Outer}
					if re, top := tgResolveExpr(l, rhs); top.Parent == nil {
						fn, e = f, re
					}
				}
				if okO, whyO := tgLoadedRoot(fn, e, P+"(*nodeDB).GetNode", P+"(*nodeDB).GetRoot"); okO {
					ok = true
				} else {
					why = "tree.root is assigned `" + engine.ExprString(rhs) + "`, which is not the root loaded from the node DB: " + whyO
				}
			}
			c.Check("save-adopts-persisted", f.Name+" success exit without Commit adopts the persisted root", r.Pos(), ok, why)
		}
		c.Floor("save-adopts-persisted", n, 1)
	}
	if f := c.MustFunc(T + "Rollback"); f != nil {
		info := f.Info()
		// tree.ImmutableTree = tree.lastSaved.clone()  (embedded struct assignment)
		n, ok := 0, false
		engine.InspectBody(f, func(nd ast.Node) {
			as, isAs := nd.(*ast.AssignStmt)
			if !isAs || len(as.Lhs) != 1 || len(as.Rhs) != 1 {
				return
			}
			if fld := tgSelField(info, as.Lhs[0]); fld != nil && fld.Embedded() && fld.Name() == "ImmutableTree" {
				n++
				if call, isCall := ast.Unparen(as.Rhs[0]).(*ast.CallExpr); isCall {
					if se, isSel := call.Fun.(*ast.SelectorExpr); isSel && tgSelField(info, se.X) == lastF.Origin() {
						ok = true
					}
				} else if tgSelField(info, as.Rhs[0]) == lastF.Origin() {
					ok = true
				}
				// the alternative branch builds an empty tree: allowed only when lastSaved is absent
				if lit, isLit := ast.Unparen(as.Rhs[0]).(*ast.UnaryExpr); isLit && lit.Op == token.AND {
					n--
				}
			}
		})
		c.Check("rollback-restores", f.Name+" working tree = lastSaved", f.Pos(), n >= 1 && ok, "Rollback must replace the working tree by (a copy of) lastSaved")
	}
	tgDebug(c)
}
