package checks

import (
	"go/ast"
	"go/token"
	"strings"

	"gnoverif/engine"
)

// C53 extra — a per-element decode target is fresh for every element. amino's
// (and encoding/json's) struct decoders leave a field untouched when its key is
// absent from the input, and Balance.Parse assigns Vesting only when the entry
// carries one: decoding element i+1 into the variable that still holds element i
// makes the element inherit whatever it omits. The in-memory genesis path gets
// already-decoded, independent elements, so a reused target makes the streamed
// path diverge from it. Rule: for every Unmarshal* call inside a loop of
// gno.land/pkg/gnoland whose target is `&v` for a local v, v is declared inside
// the innermost enclosing loop body, or is reset (`v = T{}`) by a top-level
// statement of that body that precedes the call.
// (Added after an independently seeded change hoisted `var bal Balance` and
// `var tx TxWithMetadata` out of applyStreamingAppState's two JSONL loops as an
// allocation optimisation.)
func init() {
	extend("C53", c53FreshTarget)
	mutants("C53",
		Mutant{"stream-balance-target-reused", "gno.land/pkg/gnoland/app.go", "	for line, err := range ref.IterBalances(ctx.Context()) {\n\t\tif err != nil {\n\t\t\treturn nil, fmt.Errorf(\"iter balances: %w\", err)\n\t\t}\n\t\tvar bal Balance\n", "	var bal Balance\n\tfor line, err := range ref.IterBalances(ctx.Context()) {\n\t\tif err != nil {\n\t\t\treturn nil, fmt.Errorf(\"iter balances: %w\", err)\n\t\t}\n", "decode-target-fresh"},
		Mutant{"stream-tx-target-reused", "gno.land/pkg/gnoland/app.go", "	for line, err := range ref.IterTxs(ctx.Context()) {\n\t\tif err != nil {\n\t\t\treturn nil, fmt.Errorf(\"iter txs: %w\", err)\n\t\t}\n\t\tvar tx TxWithMetadata\n", "	var tx TxWithMetadata\n\tfor line, err := range ref.IterTxs(ctx.Context()) {\n\t\tif err != nil {\n\t\t\treturn nil, fmt.Errorf(\"iter txs: %w\", err)\n\t\t}\n", "decode-target-fresh"},
	)
}

func c53FreshTarget(c *engine.Ctx) {
	p := progWith(c, "gno.land/pkg/gnoland")
	if p == nil {
		return
	}
	n := 0
	for _, f := range p.FuncsIn("gno.land/pkg/gnoland") {
		info := f.Info()
		for _, s := range f.Calls() {
			name := s.CalleeName()
			dot := strings.LastIndex(name, ".")
			if dot < 0 || !strings.HasPrefix(name[dot+1:], "Unmarshal") || len(s.Call.Args) == 0 {
				continue
			}
			u, ok := ast.Unparen(s.Call.Args[len(s.Call.Args)-1]).(*ast.UnaryExpr)
			if !ok || u.Op != token.AND {
				continue
			}
			id, ok := ast.Unparen(u.X).(*ast.Ident)
			if !ok {
				continue
			}
			obj := info.ObjectOf(id)
			if obj == nil {
				continue
			}
			// innermost loop containing the call
			var loop ast.Node
			var body *ast.BlockStmt
			engine.InspectBody(f, func(x ast.Node) {
				var b *ast.BlockStmt
				switch l := x.(type) {
				case *ast.ForStmt:
					b = l.Body
				case *ast.RangeStmt:
					b = l.Body
				}
				if b != nil && containsExpr(b, s.Node) {
					if loop == nil || containsExpr(loop, x) {
						loop, body = x, b
					}
				}
			})
			if loop == nil {
				continue
			}
			n++
			fresh := body.Pos() <= obj.Pos() && obj.Pos() <= body.End()
			if !fresh {
				for _, st := range body.List {
					if st.End() > s.Node.Pos() {
						break
					}
					if as, ok := st.(*ast.AssignStmt); ok && as.Tok == token.ASSIGN && len(as.Lhs) == 1 && len(as.Rhs) == 1 && info.ObjectOf(identOf(as.Lhs[0])) == obj {
						if _, isLit := ast.Unparen(as.Rhs[0]).(*ast.CompositeLit); isLit {
							fresh = true
						}
					}
				}
			}
			c.Check("decode-target-fresh", f.Name+" "+name[dot+1:]+"(&"+id.Name+") in loop", s.Pos(), fresh,
				"the decode target `"+id.Name+"` outlives the loop iteration: the decoder leaves fields absent from the input untouched, so an element inherits what the previous one set (the in-memory path has independent elements)")
		}
	}
	c.Floor("decode-target-fresh", n, 2)
}

func identOf(e ast.Expr) *ast.Ident {
	id, _ := ast.Unparen(e).(*ast.Ident)
	if id == nil {
		return &ast.Ident{Name: "_"}
	}
	return id
}
