package checks

import (
	"fmt"
	"go/ast"
	"go/token"
	"go/types"
	"os"
	"reflect"
	"sort"
	"strings"

	"gnoverif/engine"
)

// Helpers shared by C03–C06 (author: gnovmA). All names carry the gva prefix.

const gvaGno = "gnovm/pkg/gnolang"

// gvaDump is a development aid: GNOVMA_DUMP=1 prints discovered instances.
var gvaDump = os.Getenv("GNOVMA_DUMP") != ""

// gvaMainSwitch returns the switch statement of f with the most case clauses
// whose tag satisfies tagOK (nil: any).
func gvaMainSwitch(f *engine.Fn, tagOK func(ast.Expr) bool) *engine.SwitchInfo {
	var best *engine.SwitchInfo
	for _, s := range f.Switches() {
		if s.Consts == nil {
			continue
		}
		if tagOK != nil && (s.Tag == nil || !tagOK(s.Tag)) {
			continue
		}
		if best == nil || len(s.Consts) > len(best.Consts) {
			best = s
		}
	}
	return best
}

// gvaIsCallNamed reports whether e is a call whose callee renders as name
// (exact engine.FuncName) and returns the call.
func gvaCallee(info *types.Info, e ast.Expr) (*ast.CallExpr, string) {
	c, ok := ast.Unparen(e).(*ast.CallExpr)
	if !ok {
		return nil, ""
	}
	var id *ast.Ident
	switch f := ast.Unparen(c.Fun).(type) {
	case *ast.Ident:
		id = f
	case *ast.SelectorExpr:
		id = f.Sel
	}
	if id == nil {
		return c, ""
	}
	switch o := info.Uses[id].(type) {
	case *types.Func:
		return c, engine.FuncName(o)
	case *types.Builtin:
		return c, "builtin." + o.Name()
	case *types.TypeName:
		return c, "conv." + o.Name()
	}
	return c, ""
}

// gvaMethodName returns the bare method name of a call on a *TypedValue /
// TypedValue receiver ("GetInt8"), plus the receiver expression; "" otherwise.
func gvaTVAccessor(info *types.Info, e ast.Expr) (name string, recv ast.Expr) {
	c, ok := ast.Unparen(e).(*ast.CallExpr)
	if !ok {
		return "", nil
	}
	sel, ok := ast.Unparen(c.Fun).(*ast.SelectorExpr)
	if !ok {
		return "", nil
	}
	fn, ok := info.Uses[sel.Sel].(*types.Func)
	if !ok {
		return "", nil
	}
	n := engine.FuncName(fn)
	const p = gvaGno + ".(*TypedValue)."
	if !strings.HasPrefix(n, p) {
		return "", nil
	}
	return n[len(p):], sel.X
}

// gvaClauseNodes walks the body statements of a case clause (not nested literals).
func gvaWalkClause(cc *ast.CaseClause, visit func(ast.Node) bool) {
	for _, st := range cc.Body {
		ast.Inspect(st, func(n ast.Node) bool {
			if n == nil {
				return false
			}
			if _, ok := n.(*ast.FuncLit); ok {
				return false
			}
			return visit(n)
		})
	}
}

// gvaWalkAll is gvaWalkClause including nested function literals.
func gvaWalkAll(cc *ast.CaseClause, visit func(ast.Node) bool) {
	for _, st := range cc.Body {
		ast.Inspect(st, func(n ast.Node) bool {
			if n == nil {
				return false
			}
			return visit(n)
		})
	}
}

func gvaSorted(m map[string]bool) []string {
	var out []string
	for k := range m {
		out = append(out, k)
	}
	sort.Strings(out)
	return out
}

func gvaSet(xs ...string) map[string]bool {
	m := map[string]bool{}
	for _, x := range xs {
		m[x] = true
	}
	return m
}

// gvaRootObj returns the object of the leftmost identifier of a selector chain.
func gvaRootObj(info *types.Info, e ast.Expr) types.Object {
	for {
		switch x := ast.Unparen(e).(type) {
		case *ast.Ident:
			return info.ObjectOf(x)
		case *ast.SelectorExpr:
			e = x.X
		case *ast.StarExpr:
			e = x.X
		case *ast.IndexExpr:
			e = x.X
		case *ast.SliceExpr:
			e = x.X
		case *ast.UnaryExpr:
			if x.Op != token.AND {
				return nil
			}
			e = x.X
		case *ast.CallExpr:
			if s, ok := ast.Unparen(x.Fun).(*ast.SelectorExpr); ok {
				e = s.X
				continue
			}
			return nil
		case *ast.TypeAssertExpr:
			e = x.X
		default:
			return nil
		}
	}
}

// gvaCallersOf renders the sorted set of root functions that reference (call
// or take the value of) the named function.
func gvaCallersOf(p *engine.Prog, name string) []string {
	return engine.CallerSet(p.RefsToFunc(name))
}

// gvaStructFields lists the field names of a named struct type.
func gvaStructFields(n *types.Named) []*types.Var {
	st, ok := n.Underlying().(*types.Struct)
	if !ok {
		return nil
	}
	var out []*types.Var
	for i := 0; i < st.NumFields(); i++ {
		out = append(out, st.Field(i))
	}
	return out
}

// gvaASTEqual compares two syntax trees structurally, ignoring positions,
// comments and resolver objects. It returns "" when equal, else a short
// description of the first difference.
func gvaASTEqual(a, b ast.Node) string {
	return gvaValEq(reflect.ValueOf(a), reflect.ValueOf(b), "")
}

var (
	gvaPosT = reflect.TypeOf(token.NoPos)
	gvaCGT  = reflect.TypeOf((*ast.CommentGroup)(nil))
	gvaObjT = reflect.TypeOf((*ast.Object)(nil))
	gvaScpT = reflect.TypeOf((*ast.Scope)(nil))
)

func gvaValEq(a, b reflect.Value, path string) string {
	if a.IsValid() != b.IsValid() {
		return path + ": one side missing"
	}
	if !a.IsValid() {
		return ""
	}
	if a.Type() != b.Type() {
		return path + ": " + a.Type().String() + " vs " + b.Type().String()
	}
	switch a.Type() {
	case gvaPosT, gvaCGT, gvaObjT, gvaScpT:
		return ""
	}
	switch a.Kind() {
	case reflect.Interface, reflect.Ptr:
		if a.IsNil() || b.IsNil() {
			if a.IsNil() != b.IsNil() {
				return path + ": nil vs non-nil"
			}
			return ""
		}
		return gvaValEq(a.Elem(), b.Elem(), path)
	case reflect.Struct:
		for i := 0; i < a.NumField(); i++ {
			if d := gvaValEq(a.Field(i), b.Field(i), path+"."+a.Type().Field(i).Name); d != "" {
				return d
			}
		}
		return ""
	case reflect.Slice:
		if a.Len() != b.Len() {
			return fmt.Sprintf("%s: %d vs %d elements", path, a.Len(), b.Len())
		}
		for i := 0; i < a.Len(); i++ {
			if d := gvaValEq(a.Index(i), b.Index(i), fmt.Sprintf("%s[%d]", path, i)); d != "" {
				return d
			}
		}
		return ""
	case reflect.String:
		if a.String() != b.String() {
			return fmt.Sprintf("%s: %q vs %q", path, a.String(), b.String())
		}
		return ""
	case reflect.Int, reflect.Int64, reflect.Int32:
		if a.Int() != b.Int() {
			return fmt.Sprintf("%s: %d vs %d", path, a.Int(), b.Int())
		}
		return ""
	case reflect.Bool:
		if a.Bool() != b.Bool() {
			return path + ": bool differs"
		}
		return ""
	case reflect.Uint, reflect.Uint64, reflect.Uint32:
		if a.Uint() != b.Uint() {
			return path + ": uint differs"
		}
		return ""
	}
	return ""
}

// ---- symbolic terms: an expression with single-definition locals resolved and
// (optionally) single-return helpers of the loaded program inlined. Rules match
// on terms so that a hoisted local or an extracted helper does not change the
// verdict. ----

type gvaTerm struct {
	Kind string // "const" "obj" "acc" "call" "binop" "unop" "conv" "sel" "lit" "unknown"
	Name string // const value / accessor name / callee name / operator / target type / field
	Obj  types.Object
	Args []*gvaTerm
	Pos  token.Pos
	Src  string // conv: underlying type of the converted operand
}

func (t *gvaTerm) String() string {
	if t == nil {
		return "<nil>"
	}
	switch t.Kind {
	case "const":
		return t.Name
	case "obj":
		if t.Obj != nil {
			return fmt.Sprintf("%s#%p", t.Obj.Name(), t.Obj)
		}
		return "?"
	}
	var as []string
	for _, a := range t.Args {
		as = append(as, a.String())
	}
	return t.Kind + ":" + t.Name + "(" + strings.Join(as, ",") + ")"
}

// gvaNorm options.
type gvaNormOpt struct {
	Inline      func(h *engine.Fn) bool // which helpers may be inlined (nil: none)
	ZeroReassig bool                    // tolerate extra assignments of a constant 0 to a local (const -0 normalisation)
}

type gvaEnv map[types.Object]*gvaTerm

func gvaNorm(f *engine.Fn, e ast.Expr, env gvaEnv, opt gvaNormOpt, depth int) *gvaTerm {
	info := f.Info()
	e = ast.Unparen(e)
	if e == nil {
		return &gvaTerm{Kind: "unknown"}
	}
	if depth > 40 {
		return &gvaTerm{Kind: "unknown", Pos: e.Pos()}
	}
	if tv, ok := info.Types[e]; ok && tv.Value != nil {
		return &gvaTerm{Kind: "const", Name: tv.Value.ExactString(), Pos: e.Pos()}
	}
	rec := func(x ast.Expr) *gvaTerm { return gvaNorm(f, x, env, opt, depth+1) }
	switch x := e.(type) {
	case *ast.Ident:
		obj := info.ObjectOf(x)
		if obj == nil {
			return &gvaTerm{Kind: "unknown", Pos: e.Pos()}
		}
		if t, ok := env[obj]; ok {
			return t
		}
		if _, isNil := obj.(*types.Nil); isNil {
			return &gvaTerm{Kind: "const", Name: "nil", Pos: e.Pos()}
		}
		if v, ok := obj.(*types.Var); ok && !v.IsField() && v.Parent() != nil && v.Parent() != v.Pkg().Scope() {
			if def := gvaReachingDef(f, obj, x.Pos(), opt.ZeroReassig); def != nil {
				return gvaNorm(f, def, env, opt, depth+1)
			}
		}
		return &gvaTerm{Kind: "obj", Obj: obj, Pos: e.Pos()}
	case *ast.StarExpr:
		return rec(x.X)
	case *ast.TypeAssertExpr:
		return rec(x.X)
	case *ast.UnaryExpr:
		if x.Op == token.AND {
			return rec(x.X)
		}
		return &gvaTerm{Kind: "unop", Name: x.Op.String(), Args: []*gvaTerm{rec(x.X)}, Pos: e.Pos()}
	case *ast.BinaryExpr:
		return &gvaTerm{Kind: "binop", Name: x.Op.String(), Args: []*gvaTerm{rec(x.X), rec(x.Y)}, Pos: e.Pos()}
	case *ast.SelectorExpr:
		if o := info.Uses[x.Sel]; o != nil {
			if _, isPkg := info.Uses[gvaIdentOf(x.X)].(*types.PkgName); isPkg {
				return &gvaTerm{Kind: "obj", Obj: o, Pos: e.Pos()}
			}
		}
		return &gvaTerm{Kind: "sel", Name: x.Sel.Name, Args: []*gvaTerm{rec(x.X)}, Pos: e.Pos()}
	case *ast.IndexExpr:
		return &gvaTerm{Kind: "index", Args: []*gvaTerm{rec(x.X), rec(x.Index)}, Pos: e.Pos()}
	case *ast.CompositeLit:
		t := &gvaTerm{Kind: "lit", Name: engine.TypeName(info.TypeOf(x)), Pos: e.Pos()}
		for _, el := range x.Elts {
			if kv, ok := el.(*ast.KeyValueExpr); ok {
				t.Args = append(t.Args, rec(kv.Value))
			} else {
				t.Args = append(t.Args, rec(el))
			}
		}
		return t
	case *ast.CallExpr:
		if len(x.Args) == 1 && info.Types[x.Fun].IsType() {
			src := ""
			if st := info.TypeOf(x.Args[0]); st != nil {
				src = st.Underlying().String()
			}
			return &gvaTerm{Kind: "conv", Name: info.TypeOf(x.Fun).Underlying().String(), Args: []*gvaTerm{rec(x.Args[0])}, Pos: e.Pos(), Src: src}
		}
		if name, recv := gvaTVAccessor(info, x); strings.HasPrefix(name, "Get") {
			return &gvaTerm{Kind: "acc", Name: name, Args: []*gvaTerm{rec(recv)}, Pos: e.Pos()}
		}
		_, cn := gvaCallee(info, x)
		var args []*gvaTerm
		var recvT *gvaTerm
		if sel, ok := ast.Unparen(x.Fun).(*ast.SelectorExpr); ok {
			if fo, ok := info.Uses[sel.Sel].(*types.Func); ok && fo.Type().(*types.Signature).Recv() != nil {
				recvT = rec(sel.X)
			}
		}
		for _, a := range x.Args {
			args = append(args, rec(a))
		}
		// inline a single-return helper of the loaded program
		if opt.Inline != nil {
			if fo, ok := gvaCalleeFunc(info, x); ok {
				if h := f.Prog.FnOf(fo); h != nil && h != f && opt.Inline(h) {
					if ret := gvaSoleReturn(h); ret != nil {
						env2 := gvaEnv{}
						i := 0
						for _, fld := range h.Type.Params.List {
							for _, nm := range fld.Names {
								if i < len(args) {
									env2[h.Info().ObjectOf(nm)] = args[i]
								}
								i++
							}
						}
						if h.Decl != nil && h.Decl.Recv != nil && recvT != nil {
							for _, fld := range h.Decl.Recv.List {
								for _, nm := range fld.Names {
									env2[h.Info().ObjectOf(nm)] = recvT
								}
							}
						}
						return gvaNorm(h, ret, env2, opt, depth+1)
					}
				}
			}
		}
		t := &gvaTerm{Kind: "call", Name: cn, Pos: e.Pos()}
		if recvT != nil {
			t.Args = append(t.Args, recvT)
		}
		t.Args = append(t.Args, args...)
		return t
	}
	return &gvaTerm{Kind: "unknown", Pos: e.Pos()}
}

func gvaIdentOf(e ast.Expr) *ast.Ident {
	id, _ := ast.Unparen(e).(*ast.Ident)
	return id
}

func gvaCalleeFunc(info *types.Info, c *ast.CallExpr) (*types.Func, bool) {
	var id *ast.Ident
	switch f := ast.Unparen(c.Fun).(type) {
	case *ast.Ident:
		id = f
	case *ast.SelectorExpr:
		id = f.Sel
	}
	if id == nil {
		return nil, false
	}
	fo, ok := info.Uses[id].(*types.Func)
	return fo, ok
}

// gvaSoleReturn: the helper's body is `return e` (one result), possibly after
// statements that are not returns; nil when there are several returns.
func gvaSoleReturn(h *engine.Fn) ast.Expr {
	var rets []*ast.ReturnStmt
	engine.InspectBody(h, func(n ast.Node) {
		if r, ok := n.(*ast.ReturnStmt); ok {
			rets = append(rets, r)
		}
	})
	if len(rets) != 1 || len(rets[0].Results) != 1 {
		return nil
	}
	return rets[0].Results[0]
}

// gvaSingleDef returns the defining expression of a local that is assigned
// exactly once (a := e / var a = e / a, _ := f()), nil otherwise. A tuple
// definition resolves to the call for its first variable.
func gvaSingleDef(f *engine.Fn, obj types.Object, zeroOK bool) ast.Expr {
	info := f.Info()
	var def ast.Expr
	n := 0
	bad := false
	var walk func(root ast.Node)
	walk = func(root ast.Node) {
		ast.Inspect(root, func(nd ast.Node) bool {
			switch x := nd.(type) {
			case *ast.AssignStmt:
				for i, l := range x.Lhs {
					if engine.ObjOf(info, l) != obj {
						if gvaRootObj(info, l) == obj && ast.Unparen(l) != ast.Expr(gvaIdentOf(l)) {
							// a[i] = …, a.f = … : written through
							if _, isPtr := obj.Type().Underlying().(*types.Pointer); !isPtr {
								bad = true
							}
						}
						continue
					}
					if x.Tok != token.DEFINE && x.Tok != token.ASSIGN {
						bad = true
						continue
					}
					var rhs ast.Expr
					if len(x.Rhs) == len(x.Lhs) {
						rhs = x.Rhs[i]
					} else if len(x.Rhs) == 1 && i == 0 {
						rhs = x.Rhs[0]
					} else {
						bad = true
						continue
					}
					if zeroOK && x.Tok == token.ASSIGN {
						if tv := info.Types[rhs]; tv.Value != nil && tv.Value.ExactString() == "0" {
							continue
						}
					}
					n++
					def = rhs
				}
			case *ast.ValueSpec:
				for i, nm := range x.Names {
					if info.Defs[nm] == obj {
						if len(x.Values) == len(x.Names) {
							n++
							def = x.Values[i]
						} else {
							bad = true
						}
					}
				}
			case *ast.IncDecStmt:
				if engine.ObjOf(info, x.X) == obj {
					bad = true
				}
			case *ast.RangeStmt:
				if (x.Key != nil && engine.ObjOf(info, x.Key) == obj) || (x.Value != nil && engine.ObjOf(info, x.Value) == obj) {
					bad = true
				}
			case *ast.UnaryExpr:
				if x.Op == token.AND && engine.ObjOf(info, x.X) == obj {
					bad = true
				}
			}
			return true
		})
	}
	walk(f.Root().Body)
	if bad || n != 1 {
		return nil
	}
	return def
}

// gvaStripConv removes Go conversions around a term; ok reports whether every
// stripped conversion satisfies keep (nil: any).
func gvaStripConv(t *gvaTerm) *gvaTerm {
	for t != nil && t.Kind == "conv" && len(t.Args) == 1 {
		t = t.Args[0]
	}
	return t
}

// gvaTermObjs collects the leaf objects of a term.
func gvaTermObjs(t *gvaTerm, out map[types.Object]bool) {
	if t == nil {
		return
	}
	if t.Kind == "obj" && t.Obj != nil {
		out[t.Obj] = true
	}
	for _, a := range t.Args {
		gvaTermObjs(a, out)
	}
}

func gvaTermMentions(t *gvaTerm, o types.Object) bool {
	m := map[types.Object]bool{}
	gvaTermObjs(t, m)
	return o != nil && m[o]
}

// gvaAccOf: term is (conversions of) accessor Get<acc> read from object o.
func gvaAccOf(t *gvaTerm, o types.Object) (name string, ok bool) {
	t = gvaStripConv(t)
	if t == nil || t.Kind != "acc" || len(t.Args) != 1 {
		return "", false
	}
	r := t.Args[0]
	for r != nil && r.Kind == "sel" && len(r.Args) == 1 { // pv.TV.GetInt(): read through a field of the operand holder
		r = r.Args[0]
	}
	if r == nil || r.Kind != "obj" || r.Obj != o {
		// the receiver may itself be the operand (lv) or a field chain rooted at it
		if !gvaTermMentions(t.Args[0], o) {
			return t.Name, false
		}
	}
	return t.Name, true
}

// gvaTVParams returns the parameters of f whose type is *TypedValue, in order.
func gvaTVParams(f *engine.Fn) []types.Object {
	var out []types.Object
	for _, fld := range f.Type.Params.List {
		for _, nm := range fld.Names {
			o := f.Info().ObjectOf(nm)
			if o != nil && engine.TypeName(o.Type()) == "*"+gvaGno+".TypedValue" {
				out = append(out, o)
			}
		}
	}
	return out
}

// gvaReachingDef resolves a local at a use position: its single definition, or
// — when it is assigned several times by statements of one straight-line
// statement list — the latest assignment that ends before the use.
func gvaReachingDef(f *engine.Fn, obj types.Object, use token.Pos, zeroOK bool) ast.Expr {
	if d := gvaSingleDef(f, obj, zeroOK); d != nil {
		return d
	}
	info := f.Info()
	type asg struct {
		st   ast.Stmt
		rhs  ast.Expr
		list *[]ast.Stmt
	}
	var all []asg
	bad := false
	var visitList func(list []ast.Stmt)
	var visitStmt func(st ast.Stmt, list *[]ast.Stmt, direct bool)
	visitStmt = func(st ast.Stmt, list *[]ast.Stmt, direct bool) {
		switch x := st.(type) {
		case *ast.AssignStmt:
			for i, l := range x.Lhs {
				if engine.ObjOf(info, l) == obj {
					if (x.Tok != token.DEFINE && x.Tok != token.ASSIGN) || len(x.Lhs) != len(x.Rhs) || !direct {
						bad = true
						return
					}
					all = append(all, asg{x, x.Rhs[i], list})
				}
			}
			return
		case *ast.IncDecStmt:
			if engine.ObjOf(info, x.X) == obj {
				bad = true
			}
			return
		case *ast.DeclStmt:
			ast.Inspect(x, func(n ast.Node) bool {
				if vs, ok := n.(*ast.ValueSpec); ok {
					for _, nm := range vs.Names {
						if info.Defs[nm] == obj {
							bad = true
						}
					}
				}
				return true
			})
			return
		}
		// compound statements: assignments inside are not straight-line
		ast.Inspect(st, func(n ast.Node) bool {
			switch y := n.(type) {
			case *ast.FuncLit:
				return true
			case *ast.BlockStmt:
				if n != ast.Node(st) {
					visitList(y.List)
					return false
				}
			case *ast.CaseClause:
				visitList(y.Body)
				return false
			case *ast.CommClause:
				visitList(y.Body)
				return false
			case *ast.AssignStmt:
				if n != ast.Node(st) {
					for _, l := range y.Lhs {
						if engine.ObjOf(info, l) == obj {
							bad = true
						}
					}
				}
			case *ast.RangeStmt:
				if (y.Key != nil && engine.ObjOf(info, y.Key) == obj) || (y.Value != nil && engine.ObjOf(info, y.Value) == obj) {
					bad = true
				}
			case *ast.UnaryExpr:
				if y.Op == token.AND && engine.ObjOf(info, y.X) == obj {
					bad = true
				}
			}
			return true
		})
	}
	visitList = func(list []ast.Stmt) {
		l := list
		for _, st := range list {
			visitStmt(st, &l, true)
		}
	}
	visitList(f.Root().Body.List)
	if bad || len(all) < 2 {
		return nil
	}
	// all in one list?
	first := all[0].st
	var home []ast.Stmt
	var find func(list []ast.Stmt) bool
	find = func(list []ast.Stmt) bool {
		for _, st := range list {
			if st == first {
				home = list
				return true
			}
		}
		found := false
		for _, st := range list {
			ast.Inspect(st, func(n ast.Node) bool {
				if found {
					return false
				}
				switch y := n.(type) {
				case *ast.BlockStmt:
					if find(y.List) {
						found = true
					}
				case *ast.CaseClause:
					if find(y.Body) {
						found = true
					}
				}
				return !found
			})
			if found {
				return true
			}
		}
		return false
	}
	if !find(f.Root().Body.List) {
		return nil
	}
	inHome := func(st ast.Stmt) bool {
		for _, h := range home {
			if h == st {
				return true
			}
		}
		return false
	}
	var best ast.Expr
	var bestEnd token.Pos
	for _, a := range all {
		if !inHome(a.st) {
			return nil
		}
		if a.st.End() <= use && a.st.End() > bestEnd {
			best, bestEnd = a.rhs, a.st.End()
		}
	}
	// the use itself must be inside the home list's span
	if len(home) == 0 || use < home[0].Pos() || use > home[len(home)-1].End() {
		return nil
	}
	return best
}

// gvaIsIntConvName reports whether a conversion target is an integer type.
func gvaIntBits(name string) (bits int, signed, ok bool) {
	switch name {
	case "int8":
		return 8, true, true
	case "int16":
		return 16, true, true
	case "int32":
		return 32, true, true
	case "int64", "int":
		return 64, true, true
	case "uint8":
		return 8, false, true
	case "uint16":
		return 16, false, true
	case "uint32":
		return 32, false, true
	case "uint64", "uint":
		return 64, false, true
	}
	return 0, false, false
}

// gvaWideningConv: converting src to dst preserves every value.
func gvaWideningConv(src, dst string) bool {
	sb, ss, ok1 := gvaIntBits(src)
	db, ds, ok2 := gvaIntBits(dst)
	if !ok1 || !ok2 {
		return false
	}
	if ss == ds {
		return db >= sb
	}
	return !ss && ds && db > sb
}
