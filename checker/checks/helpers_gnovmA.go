package checks

import (
	"fmt"
	"go/ast"
	"go/token"
	"go/types"
	"os"
	"reflect"
	"sort"
	"strings"

	"gnoverif/engine"
)

// Helpers shared by C03–C06 (author: gnovmA). All names carry the gva prefix.

const gvaGno = "gnovm/pkg/gnolang"

// gvaDump is a development aid: GNOVMA_DUMP=1 prints discovered instances.
var gvaDump = os.Getenv("GNOVMA_DUMP") != ""

// gvaMainSwitch returns the switch statement of f with the most case clauses
// whose tag satisfies tagOK (nil: any).
func gvaMainSwitch(f *engine.Fn, tagOK func(ast.Expr) bool) *engine.SwitchInfo {
	var best *engine.SwitchInfo
	for _, s := range f.Switches() {
		if s.Consts == nil {
			continue
		}
		if tagOK != nil && (s.Tag == nil || !tagOK(s.Tag)) {
			continue
		}
		if best == nil || len(s.Consts) > len(best.Consts) {
			best = s
		}
	}
	return best
}

// gvaIsCallNamed reports whether e is a call whose callee renders as name
// (exact engine.FuncName) and returns the call.
func gvaCallee(info *types.Info, e ast.Expr) (*ast.CallExpr, string) {
	c, ok := ast.Unparen(e).(*ast.CallExpr)
	if !ok {
		return nil, ""
	}
	var id *ast.Ident
	switch f := ast.Unparen(c.Fun).(type) {
	case *ast.Ident:
		id = f
	case *ast.SelectorExpr:
		id = f.Sel
	}
	if id == nil {
		return c, ""
	}
	switch o := info.Uses[id].(type) {
	case *types.Func:
		return c, engine.FuncName(o)
	case *types.Builtin:
		return c, "builtin." + o.Name()
	case *types.TypeName:
		return c, "conv." + o.Name()
	}
	return c, ""
}

// gvaMethodName returns the bare method name of a call on a *TypedValue /
// TypedValue receiver ("GetInt8"), plus the receiver expression; "" otherwise.
func gvaTVAccessor(info *types.Info, e ast.Expr) (name string, recv ast.Expr) {
	c, ok := ast.Unparen(e).(*ast.CallExpr)
	if !ok {
		return "", nil
	}
	sel, ok := ast.Unparen(c.Fun).(*ast.SelectorExpr)
	if !ok {
		return "", nil
	}
	fn, ok := info.Uses[sel.Sel].(*types.Func)
	if !ok {
		return "", nil
	}
	n := engine.FuncName(fn)
	const p = gvaGno + ".(*TypedValue)."
	if !strings.HasPrefix(n, p) {
		return "", nil
	}
	return n[len(p):], sel.X
}

// gvaClauseNodes walks the body statements of a case clause (not nested literals).
func gvaWalkClause(cc *ast.CaseClause, visit func(ast.Node) bool) {
	for _, st := range cc.Body {
		ast.Inspect(st, func(n ast.Node) bool {
			if n == nil {
				return false
			}
			if _, ok := n.(*ast.FuncLit); ok {
				return false
			}
			return visit(n)
		})
	}
}

// gvaWalkAll is gvaWalkClause including nested function literals.
func gvaWalkAll(cc *ast.CaseClause, visit func(ast.Node) bool) {
	for _, st := range cc.Body {
		ast.Inspect(st, func(n ast.Node) bool {
			if n == nil {
				return false
			}
			return visit(n)
		})
	}
}

func gvaSorted(m map[string]bool) []string {
	var out []string
	for k := range m {
		out = append(out, k)
	}
	sort.Strings(out)
	return out
}

func gvaSet(xs ...string) map[string]bool {
	m := map[string]bool{}
	for _, x := range xs {
		m[x] = true
	}
	return m
}

// gvaRootObj returns the object of the leftmost identifier of a selector chain.
func gvaRootObj(info *types.Info, e ast.Expr) types.Object {
	for {
		switch x := ast.Unparen(e).(type) {
		case *ast.Ident:
			return info.ObjectOf(x)
		case *ast.SelectorExpr:
			e = x.X
		case *ast.StarExpr:
			e = x.X
		case *ast.IndexExpr:
			e = x.X
		case *ast.SliceExpr:
			e = x.X
		case *ast.CallExpr:
			if s, ok := ast.Unparen(x.Fun).(*ast.SelectorExpr); ok {
				e = s.X
				continue
			}
			return nil
		case *ast.TypeAssertExpr:
			e = x.X
		default:
			return nil
		}
	}
}

// gvaCallersOf renders the sorted set of root functions that reference (call
// or take the value of) the named function.
func gvaCallersOf(p *engine.Prog, name string) []string {
	return engine.CallerSet(p.RefsToFunc(name))
}

// gvaStructFields lists the field names of a named struct type.
func gvaStructFields(n *types.Named) []*types.Var {
	st, ok := n.Underlying().(*types.Struct)
	if !ok {
		return nil
	}
	var out []*types.Var
	for i := 0; i < st.NumFields(); i++ {
		out = append(out, st.Field(i))
	}
	return out
}

// gvaASTEqual compares two syntax trees structurally, ignoring positions,
// comments and resolver objects. It returns "" when equal, else a short
// description of the first difference.
func gvaASTEqual(a, b ast.Node) string {
	return gvaValEq(reflect.ValueOf(a), reflect.ValueOf(b), "")
}

var (
	gvaPosT = reflect.TypeOf(token.NoPos)
	gvaCGT  = reflect.TypeOf((*ast.CommentGroup)(nil))
	gvaObjT = reflect.TypeOf((*ast.Object)(nil))
	gvaScpT = reflect.TypeOf((*ast.Scope)(nil))
)

func gvaValEq(a, b reflect.Value, path string) string {
	if a.IsValid() != b.IsValid() {
		return path + ": one side missing"
	}
	if !a.IsValid() {
		return ""
	}
	if a.Type() != b.Type() {
		return path + ": " + a.Type().String() + " vs " + b.Type().String()
	}
	switch a.Type() {
	case gvaPosT, gvaCGT, gvaObjT, gvaScpT:
		return ""
	}
	switch a.Kind() {
	case reflect.Interface, reflect.Ptr:
		if a.IsNil() || b.IsNil() {
			if a.IsNil() != b.IsNil() {
				return path + ": nil vs non-nil"
			}
			return ""
		}
		return gvaValEq(a.Elem(), b.Elem(), path)
	case reflect.Struct:
		for i := 0; i < a.NumField(); i++ {
			if d := gvaValEq(a.Field(i), b.Field(i), path+"."+a.Type().Field(i).Name); d != "" {
				return d
			}
		}
		return ""
	case reflect.Slice:
		if a.Len() != b.Len() {
			return fmt.Sprintf("%s: %d vs %d elements", path, a.Len(), b.Len())
		}
		for i := 0; i < a.Len(); i++ {
			if d := gvaValEq(a.Index(i), b.Index(i), fmt.Sprintf("%s[%d]", path, i)); d != "" {
				return d
			}
		}
		return ""
	case reflect.String:
		if a.String() != b.String() {
			return fmt.Sprintf("%s: %q vs %q", path, a.String(), b.String())
		}
		return ""
	case reflect.Int, reflect.Int64, reflect.Int32:
		if a.Int() != b.Int() {
			return fmt.Sprintf("%s: %d vs %d", path, a.Int(), b.Int())
		}
		return ""
	case reflect.Bool:
		if a.Bool() != b.Bool() {
			return path + ": bool differs"
		}
		return ""
	case reflect.Uint, reflect.Uint64, reflect.Uint32:
		if a.Uint() != b.Uint() {
			return path + ": uint differs"
		}
		return ""
	}
	return ""
}
