package checks

import (
	"go/ast"
	"go/token"
	"go/types"
	"sort"
	"strings"

	"golang.org/x/tools/go/cfg"
	"golang.org/x/tools/go/types/typeutil"

	"gnoverif/engine"
)

// Helpers shared by C22, C27, C28, C29, C41 (prefix sf*). AST/CFG level only.

// sfCallee renders the resolved callee of a call ("" when dynamic).
func sfCallee(info *types.Info, call *ast.CallExpr) string {
	switch o := typeutil.Callee(info, call).(type) {
	case *types.Func:
		return engine.FuncName(o)
	case *types.Builtin:
		return "builtin." + o.Name()
	}
	return ""
}

// sfIsCallTo reports whether e is a call whose resolved callee matches pats.
func sfIsCallTo(info *types.Info, e ast.Expr, pats ...string) (*ast.CallExpr, bool) {
	c, ok := ast.Unparen(e).(*ast.CallExpr)
	if !ok {
		return nil, false
	}
	return c, engine.MatchName(sfCallee(info, c), pats...)
}

// sfDefs returns every expression assigned to the local/param obj inside f
// (not in nested literals): x := e, x = e, var x = e, and for tuple
// assignments from one call the call itself. The second result is false when
// obj is written in a way that is not understood (address taken, inc/dec,
// range variable).
func sfDefs(f *engine.Fn, obj types.Object) ([]ast.Expr, bool) {
	info := f.Info()
	var out []ast.Expr
	ok := true
	engine.InspectBody(f, func(n ast.Node) {
		switch s := n.(type) {
		case *ast.AssignStmt:
			for i, l := range s.Lhs {
				id, isId := ast.Unparen(l).(*ast.Ident)
				if !isId || info.ObjectOf(id) != obj {
					continue
				}
				if s.Tok != token.ASSIGN && s.Tok != token.DEFINE {
					ok = false
					continue
				}
				if len(s.Rhs) == len(s.Lhs) {
					out = append(out, s.Rhs[i])
				} else if len(s.Rhs) == 1 {
					out = append(out, s.Rhs[0])
				}
			}
		case *ast.ValueSpec:
			for i, id := range s.Names {
				if info.ObjectOf(id) != obj {
					continue
				}
				if len(s.Values) == len(s.Names) {
					out = append(out, s.Values[i])
				} else if len(s.Values) == 1 {
					out = append(out, s.Values[0])
				}
			}
		case *ast.IncDecStmt:
			if id, isId := ast.Unparen(s.X).(*ast.Ident); isId && info.ObjectOf(id) == obj {
				ok = false
			}
		case *ast.UnaryExpr:
			if s.Op == token.AND {
				if id, isId := ast.Unparen(s.X).(*ast.Ident); isId && info.ObjectOf(id) == obj {
					ok = false
				}
			}
		case *ast.RangeStmt:
			for _, l := range []ast.Expr{s.Key, s.Value} {
				if id, isId := l.(*ast.Ident); isId && info.ObjectOf(id) == obj {
					ok = false
				}
			}
		}
	})
	return out, ok
}

// sfDerives: e satisfies pred, or e is a local variable all of whose
// definitions in f derive (depth-bounded). Parameters never derive unless pred
// accepts the identifier itself.
func sfDerives(f *engine.Fn, e ast.Expr, pred func(ast.Expr) bool, depth int) bool {
	e = ast.Unparen(e)
	if pred(e) {
		return true
	}
	if depth <= 0 {
		return false
	}
	id, ok := e.(*ast.Ident)
	if !ok {
		return false
	}
	obj := f.Info().ObjectOf(id)
	v, isVar := obj.(*types.Var)
	if !isVar || v.IsField() {
		return false
	}
	defs, clean := sfDefs(f, obj)
	if !clean || len(defs) == 0 {
		return false
	}
	for _, d := range defs {
		if !sfDerives(f, d, pred, depth-1) {
			return false
		}
	}
	return true
}

// sfIsParam reports whether e is the identifier of f's i-th parameter.
func sfIsParam(f *engine.Fn, e ast.Expr, i int) bool {
	p := paramObj(f, i)
	return p != nil && engine.ObjOf(f.Info(), e) == p
}

// sfRecvObj returns the receiver object of a method declaration.
func sfRecvObj(f *engine.Fn) types.Object {
	if f.Decl == nil || f.Decl.Recv == nil || len(f.Decl.Recv.List) == 0 || len(f.Decl.Recv.List[0].Names) == 0 {
		return nil
	}
	return f.Info().ObjectOf(f.Decl.Recv.List[0].Names[0])
}

// sfFieldSel reports whether e is `<x>.<field>` where field is the given struct field.
func sfFieldSel(info *types.Info, e ast.Expr, field *types.Var) bool {
	se, ok := ast.Unparen(e).(*ast.SelectorExpr)
	if !ok || field == nil {
		return false
	}
	v, ok := info.Uses[se.Sel].(*types.Var)
	return ok && v.Origin() == field.Origin()
}

// sfSelField returns the struct field selected by e (nil if e is not a field selector).
func sfSelField(info *types.Info, e ast.Expr) *types.Var {
	se, ok := ast.Unparen(e).(*ast.SelectorExpr)
	if !ok {
		return nil
	}
	v, ok := info.Uses[se.Sel].(*types.Var)
	if !ok || !v.IsField() {
		return nil
	}
	return v.Origin()
}

// sfMethodOnField: call is `<x>.<field>.<method>(...)`; returns field name and method name.
func sfMethodOnField(info *types.Info, call *ast.CallExpr) (field *types.Var, method string) {
	se, ok := ast.Unparen(call.Fun).(*ast.SelectorExpr)
	if !ok {
		return nil, ""
	}
	return sfSelField(info, se.X), se.Sel.Name
}

// sfWithin reports whether node n lies inside root.
func sfWithin(root, n ast.Node) bool {
	return root != nil && n != nil && root.Pos() <= n.Pos() && n.End() <= root.End()
}

// sfGate finds, among the gates of a site, one whose condition satisfies pred;
// returns it and whether the target is on the true branch.
func sfGate(f *engine.Fn, s *engine.Site, pred func(ast.Expr) bool) (engine.Gate, bool) {
	for _, g := range f.Graph().Gates(s) {
		if pred(g.Cond) {
			return g, true
		}
	}
	return engine.Gate{}, false
}

// sfHolds decides whether `atom` is known to hold (want=true) or to be false
// (want=false) whenever site s executes, judged from the dominating gates:
// on a true branch every &&-conjunct holds, on a false branch every
// ||-disjunct is false. `match` recognises the atom (after stripping one `!`,
// reported through neg).
func sfHolds(f *engine.Fn, s *engine.Site, want bool, match func(e ast.Expr) bool) bool {
	for _, g := range f.Graph().Gates(s) {
		var parts []ast.Expr
		if g.OnTrue {
			parts = engine.Conjuncts(g.Cond, token.LAND)
		} else {
			parts = engine.Conjuncts(g.Cond, token.LOR)
		}
		for _, p := range parts {
			val := g.OnTrue // value of the part at the target
			p = ast.Unparen(p)
			for {
				u, ok := p.(*ast.UnaryExpr)
				if !ok || u.Op != token.NOT {
					break
				}
				p = ast.Unparen(u.X)
				val = !val
			}
			if match(p) && val == want {
				return true
			}
		}
	}
	return false
}

// sfOnlyGates reports the gates of s whose condition is not accepted by allowed.
func sfOtherGates(f *engine.Fn, s *engine.Site, allowed func(ast.Expr) bool) []string {
	var out []string
	for _, g := range f.Graph().Gates(s) {
		if !allowed(g.Cond) {
			out = append(out, engine.ExprString(g.Cond))
		}
	}
	return out
}

// sfCmp decomposes `a op b`.
func sfCmp(e ast.Expr) (a, b ast.Expr, op token.Token, ok bool) {
	be, isB := ast.Unparen(e).(*ast.BinaryExpr)
	if !isB {
		return nil, nil, token.ILLEGAL, false
	}
	switch be.Op {
	case token.EQL, token.NEQ, token.LSS, token.LEQ, token.GTR, token.GEQ:
		return be.X, be.Y, be.Op, true
	}
	return nil, nil, token.ILLEGAL, false
}

func sfIsIntLit(e ast.Expr, v string) bool {
	e = ast.Unparen(e)
	if u, ok := e.(*ast.UnaryExpr); ok && u.Op == token.SUB {
		if l, ok := u.X.(*ast.BasicLit); ok {
			return "-"+l.Value == v
		}
	}
	l, ok := e.(*ast.BasicLit)
	return ok && l.Value == v
}

// sfCaseOf returns the case clause of sw (an *ast.SwitchStmt) whose list holds the integer literal v.
func sfCaseOf(sw *ast.SwitchStmt, v string) *ast.CaseClause {
	for _, c := range sw.Body.List {
		cc := c.(*ast.CaseClause)
		for _, e := range cc.List {
			if sfIsIntLit(e, v) {
				return cc
			}
		}
	}
	return nil
}

// sfFieldMethodCalls lists "<field>.<Method>" for every call inside root whose
// receiver is a field selector (e.g. iter.parent.Next() -> "parent.Next") plus
// "self.<method>" for calls of methods on the bare receiver.
func sfFieldMethodCalls(f *engine.Fn, root ast.Node) []string {
	info := f.Info()
	recv := sfRecvObj(f)
	set := map[string]bool{}
	ast.Inspect(root, func(n ast.Node) bool {
		if _, ok := n.(*ast.FuncLit); ok {
			return false
		}
		c, ok := n.(*ast.CallExpr)
		if !ok {
			return true
		}
		if fld, m := sfMethodOnField(info, c); fld != nil {
			set[fld.Name()+"."+m] = true
		} else if se, ok := ast.Unparen(c.Fun).(*ast.SelectorExpr); ok && recv != nil && engine.ObjOf(info, se.X) == recv {
			set["self."+se.Sel.Name] = true
		}
		return true
	})
	var out []string
	for k := range set {
		out = append(out, k)
	}
	sort.Strings(out)
	return out
}

func sfEq(a, b []string) bool {
	if len(a) != len(b) {
		return false
	}
	for i := range a {
		if a[i] != b[i] {
			return false
		}
	}
	return true
}

func sfSorted(xs ...string) []string {
	out := append([]string{}, xs...)
	sort.Strings(out)
	return out
}

// sfSwitchOn finds the (expression) switch statements in f whose tag satisfies pred
// (the tag itself or, when the tag is a local, its single definition).
func sfSwitchOn(f *engine.Fn, pred func(ast.Expr) bool) []*ast.SwitchStmt {
	var out []*ast.SwitchStmt
	engine.InspectBody(f, func(n ast.Node) {
		sw, ok := n.(*ast.SwitchStmt)
		if !ok || sw.Tag == nil {
			return
		}
		if sfDerives(f, sw.Tag, pred, 2) {
			out = append(out, sw)
		}
	})
	return out
}

// sfReturns lists the return statements directly in f.
func sfReturns(f *engine.Fn) []*ast.ReturnStmt {
	var out []*ast.ReturnStmt
	engine.InspectBody(f, func(n ast.Node) {
		if r, ok := n.(*ast.ReturnStmt); ok {
			out = append(out, r)
		}
	})
	return out
}

// sfNamedResult returns the object of the i-th named result, or nil.
func sfNamedResult(f *engine.Fn, i int) types.Object {
	if f.Type.Results == nil {
		return nil
	}
	k := 0
	for _, fld := range f.Type.Results.List {
		if len(fld.Names) == 0 {
			k++
			continue
		}
		for _, nm := range fld.Names {
			if k == i {
				return f.Info().ObjectOf(nm)
			}
			k++
		}
	}
	return nil
}

// sfMethodsOf returns the declared methods (Fns) of the named type "pkg.T" (value or pointer receiver).
func sfMethodsOf(p *engine.Prog, pkgRel, typ string) []*engine.Fn {
	var out []*engine.Fn
	for _, f := range p.FuncsIn(pkgRel) {
		if f.Obj == nil {
			continue
		}
		if strings.HasPrefix(f.Name, pkgRel+".(*"+typ+").") || strings.HasPrefix(f.Name, pkgRel+".("+typ+").") {
			out = append(out, f)
		}
	}
	return out
}

// sfMethod finds method m of type typ with either receiver kind.
func sfMethod(c *engine.Ctx, pkgRel, typ, m string) *engine.Fn {
	if c.Prog == nil {
		return nil
	}
	if f := c.Prog.Func(pkgRel + ".(*" + typ + ")." + m); f != nil {
		return f
	}
	if f := c.Prog.Func(pkgRel + ".(" + typ + ")." + m); f != nil {
		return f
	}
	c.Undecided("anchor", pkgRel+"."+typ+"."+m, "anchored method not found (renamed or moved?)")
	return nil
}

// sfUsesOf lists every identifier use of obj inside f's body (not nested literals).
func sfUsesOf(f *engine.Fn, obj types.Object) []*ast.Ident {
	var out []*ast.Ident
	engine.InspectBody(f, func(n ast.Node) {
		if id, ok := n.(*ast.Ident); ok && f.Info().Uses[id] == obj {
			out = append(out, id)
		}
	})
	return out
}

// sfParents builds a child->parent map for the body of f (including nested literals).
func sfParents(root ast.Node) map[ast.Node]ast.Node {
	m := map[ast.Node]ast.Node{}
	var stack []ast.Node
	ast.Inspect(root, func(n ast.Node) bool {
		if n == nil {
			stack = stack[:len(stack)-1]
			return true
		}
		if len(stack) > 0 {
			m[n] = stack[len(stack)-1]
		}
		stack = append(stack, n)
		return true
	})
	return m
}

// sfTypeOfPointee renders the type T for an expression of type *T (or T itself).
func sfPointee(t types.Type) string {
	if t == nil {
		return "?"
	}
	if p, ok := t.Underlying().(*types.Pointer); ok {
		t = p.Elem()
	}
	return engine.TypeName(t)
}

// sfErrHandled: the error result of `call` is bound to a variable that is
// tested `!= nil` in an if statement dominated by the call, whose body ends in
// a no-return call (mustPanic) or, when !mustPanic, also a return statement.
// Recognised forms: `if err := call; err != nil {…}`, `x, err := call` /
// `err = call` followed by `if err != nil {…}`.
func sfErrHandled(f *engine.Fn, call *ast.CallExpr, mustPanic bool) bool {
	info := f.Info()
	var errObj types.Object
	var assign ast.Node
	engine.InspectBody(f, func(n ast.Node) {
		as, ok := n.(*ast.AssignStmt)
		if !ok || len(as.Rhs) != 1 || ast.Unparen(as.Rhs[0]) != ast.Expr(call) {
			return
		}
		last := as.Lhs[len(as.Lhs)-1]
		if id, ok := last.(*ast.Ident); ok && id.Name != "_" {
			if o := info.ObjectOf(id); o != nil && types.Identical(o.Type(), types.Universe.Lookup("error").Type()) {
				errObj, assign = o, as
			}
		}
	})
	if errObj == nil {
		return false
	}
	found := false
	engine.InspectBody(f, func(n ast.Node) {
		is, ok := n.(*ast.IfStmt)
		if !ok || found {
			return
		}
		a, b, op, isC := sfCmp(is.Cond)
		if !isC || op != token.NEQ || !isNil(b) || engine.ObjOf(info, a) != errObj {
			return
		}
		// the if must directly follow from the assignment: same init, or assignment dominates and no reassignment in between (approximated by position)
		if is.Init != assign {
			sa, si := f.SiteOf(assign), f.SiteOf(is.Cond)
			if sa == nil || si == nil || !f.Graph().Dominates(sa, si) {
				return
			}
			// no other assignment to err between
			defs := 0
			engine.InspectBody(f, func(m ast.Node) {
				if as2, ok := m.(*ast.AssignStmt); ok && as2 != assign && as2.Pos() > assign.Pos() && as2.End() <= is.Pos() {
					for _, l := range as2.Lhs {
						if engine.ObjOf(info, l) == errObj {
							defs++
						}
					}
				}
			})
			if defs > 0 {
				return
			}
		}
		if len(is.Body.List) == 0 {
			return
		}
		switch last := is.Body.List[len(is.Body.List)-1].(type) {
		case *ast.ExprStmt:
			if cl, ok := last.X.(*ast.CallExpr); ok && !f.Prog.MayReturn(info, cl) {
				found = true
			}
		case *ast.ReturnStmt:
			if !mustPanic {
				found = true
			}
		}
	})
	return found
}

// sfCfgBlock is go/cfg's basic block (for avoid-sets handed to Graph.Reach).
type sfCfgBlock = cfg.Block
