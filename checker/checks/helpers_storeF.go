package checks

import (
	"go/ast"
	"go/constant"
	"go/token"
	"go/types"
	"sort"
	"strings"

	"golang.org/x/tools/go/cfg"
	"golang.org/x/tools/go/types/typeutil"

	"gnoverif/engine"
)

// Helpers shared by C22, C27, C28, C29, C41 (prefix sf*). AST/CFG level only.

// sfCallee renders the resolved callee of a call ("" when dynamic).
func sfCallee(info *types.Info, call *ast.CallExpr) string {
	switch o := typeutil.Callee(info, call).(type) {
	case *types.Func:
		return engine.FuncName(o)
	case *types.Builtin:
		return "builtin." + o.Name()
	}
	return ""
}

// sfIsCallTo reports whether e is a call whose resolved callee matches pats.
func sfIsCallTo(info *types.Info, e ast.Expr, pats ...string) (*ast.CallExpr, bool) {
	c, ok := ast.Unparen(e).(*ast.CallExpr)
	if !ok {
		return nil, false
	}
	return c, engine.MatchName(sfCallee(info, c), pats...)
}

// sfDefs returns every expression assigned to the local/param obj inside f
// (not in nested literals): x := e, x = e, var x = e, and for tuple
// assignments from one call the call itself. The second result is false when
// obj is written in a way that is not understood (address taken, inc/dec,
// range variable).
func sfDefs(f *engine.Fn, obj types.Object) ([]ast.Expr, bool) {
	info := f.Info()
	var out []ast.Expr
	ok := true
	engine.InspectBody(f, func(n ast.Node) {
		switch s := n.(type) {
		case *ast.AssignStmt:
			for i, l := range s.Lhs {
				id, isId := ast.Unparen(l).(*ast.Ident)
				if !isId || info.ObjectOf(id) != obj {
					continue
				}
				if s.Tok != token.ASSIGN && s.Tok != token.DEFINE {
					ok = false
					continue
				}
				if len(s.Rhs) == len(s.Lhs) {
					out = append(out, s.Rhs[i])
				} else if len(s.Rhs) == 1 {
					out = append(out, s.Rhs[0])
				}
			}
		case *ast.ValueSpec:
			for i, id := range s.Names {
				if info.ObjectOf(id) != obj {
					continue
				}
				if len(s.Values) == len(s.Names) {
					out = append(out, s.Values[i])
				} else if len(s.Values) == 1 {
					out = append(out, s.Values[0])
				}
			}
		case *ast.IncDecStmt:
			if id, isId := ast.Unparen(s.X).(*ast.Ident); isId && info.ObjectOf(id) == obj {
				ok = false
			}
		case *ast.UnaryExpr:
			if s.Op == token.AND {
				if id, isId := ast.Unparen(s.X).(*ast.Ident); isId && info.ObjectOf(id) == obj {
					ok = false
				}
			}
		case *ast.RangeStmt:
			for _, l := range []ast.Expr{s.Key, s.Value} {
				if id, isId := l.(*ast.Ident); isId && info.ObjectOf(id) == obj {
					ok = false
				}
			}
		}
	})
	return out, ok
}

// sfDerives: e satisfies pred, or e is a local variable all of whose
// definitions in f derive (depth-bounded). Parameters never derive unless pred
// accepts the identifier itself.
func sfDerives(f *engine.Fn, e ast.Expr, pred func(ast.Expr) bool, depth int) bool {
	e = ast.Unparen(e)
	if pred(e) {
		return true
	}
	if depth <= 0 {
		return false
	}
	id, ok := e.(*ast.Ident)
	if !ok {
		return false
	}
	obj := f.Info().ObjectOf(id)
	v, isVar := obj.(*types.Var)
	if !isVar || v.IsField() {
		return false
	}
	defs, clean := sfDefs(f, obj)
	if !clean || len(defs) == 0 {
		return false
	}
	for _, d := range defs {
		if !sfDerives(f, d, pred, depth-1) {
			return false
		}
	}
	return true
}

// sfIsParam reports whether e is the identifier of f's i-th parameter.
func sfIsParam(f *engine.Fn, e ast.Expr, i int) bool {
	p := paramObj(f, i)
	return p != nil && engine.ObjOf(f.Info(), e) == p
}

// sfRecvObj returns the receiver object of a method declaration.
func sfRecvObj(f *engine.Fn) types.Object {
	if f.Decl == nil || f.Decl.Recv == nil || len(f.Decl.Recv.List) == 0 || len(f.Decl.Recv.List[0].Names) == 0 {
		return nil
	}
	return f.Info().ObjectOf(f.Decl.Recv.List[0].Names[0])
}

// sfFieldSel reports whether e is `<x>.<field>` where field is the given struct field.
func sfFieldSel(info *types.Info, e ast.Expr, field *types.Var) bool {
	se, ok := ast.Unparen(e).(*ast.SelectorExpr)
	if !ok || field == nil {
		return false
	}
	v, ok := info.Uses[se.Sel].(*types.Var)
	return ok && v.Origin() == field.Origin()
}

// sfSelField returns the struct field selected by e (nil if e is not a field selector).
func sfSelField(info *types.Info, e ast.Expr) *types.Var {
	se, ok := ast.Unparen(e).(*ast.SelectorExpr)
	if !ok {
		return nil
	}
	v, ok := info.Uses[se.Sel].(*types.Var)
	if !ok || !v.IsField() {
		return nil
	}
	return v.Origin()
}

// sfMethodOnField: call is `<x>.<field>.<method>(...)`; returns field name and method name.
func sfMethodOnField(info *types.Info, call *ast.CallExpr) (field *types.Var, method string) {
	se, ok := ast.Unparen(call.Fun).(*ast.SelectorExpr)
	if !ok {
		return nil, ""
	}
	return sfSelField(info, se.X), se.Sel.Name
}

// sfWithin reports whether node n lies inside root.
func sfWithin(root, n ast.Node) bool {
	return root != nil && n != nil && root.Pos() <= n.Pos() && n.End() <= root.End()
}

// sfGate finds, among the gates of a site, one whose condition satisfies pred;
// returns it and whether the target is on the true branch.
func sfGate(f *engine.Fn, s *engine.Site, pred func(ast.Expr) bool) (engine.Gate, bool) {
	for _, g := range f.Graph().Gates(s) {
		if pred(g.Cond) {
			return g, true
		}
	}
	return engine.Gate{}, false
}

// sfHolds decides whether `atom` is known to hold (want=true) or to be false
// (want=false) whenever site s executes, judged from the dominating gates:
// on a true branch every &&-conjunct holds, on a false branch every
// ||-disjunct is false. `match` recognises the atom (after stripping one `!`,
// reported through neg).
func sfHolds(f *engine.Fn, s *engine.Site, want bool, match func(e ast.Expr) bool) bool {
	for _, g := range f.Graph().Gates(s) {
		var parts []ast.Expr
		if g.OnTrue {
			parts = engine.Conjuncts(g.Cond, token.LAND)
		} else {
			parts = engine.Conjuncts(g.Cond, token.LOR)
		}
		for _, p := range parts {
			val := g.OnTrue // value of the part at the target
			p = ast.Unparen(p)
			for {
				u, ok := p.(*ast.UnaryExpr)
				if !ok || u.Op != token.NOT {
					break
				}
				p = ast.Unparen(u.X)
				val = !val
			}
			if match(p) && val == want {
				return true
			}
		}
	}
	return false
}

// sfOnlyGates reports the gates of s whose condition is not accepted by allowed.
func sfOtherGates(f *engine.Fn, s *engine.Site, allowed func(ast.Expr) bool) []string {
	var out []string
	for _, g := range f.Graph().Gates(s) {
		if !allowed(g.Cond) {
			out = append(out, engine.ExprString(g.Cond))
		}
	}
	return out
}

// sfCmp decomposes `a op b`.
func sfCmp(e ast.Expr) (a, b ast.Expr, op token.Token, ok bool) {
	be, isB := ast.Unparen(e).(*ast.BinaryExpr)
	if !isB {
		return nil, nil, token.ILLEGAL, false
	}
	switch be.Op {
	case token.EQL, token.NEQ, token.LSS, token.LEQ, token.GTR, token.GEQ:
		return be.X, be.Y, be.Op, true
	}
	return nil, nil, token.ILLEGAL, false
}

func sfIsIntLit(e ast.Expr, v string) bool {
	e = ast.Unparen(e)
	if u, ok := e.(*ast.UnaryExpr); ok && u.Op == token.SUB {
		if l, ok := u.X.(*ast.BasicLit); ok {
			return "-"+l.Value == v
		}
	}
	l, ok := e.(*ast.BasicLit)
	return ok && l.Value == v
}

// sfCaseOf returns the case clause of sw (an *ast.SwitchStmt) whose list holds the integer literal v.
func sfCaseOf(sw *ast.SwitchStmt, v string) *ast.CaseClause {
	for _, c := range sw.Body.List {
		cc := c.(*ast.CaseClause)
		for _, e := range cc.List {
			if sfIsIntLit(e, v) {
				return cc
			}
		}
	}
	return nil
}

// sfFieldMethodCalls lists "<field>.<Method>" for every call inside root whose
// receiver is a field selector (e.g. iter.parent.Next() -> "parent.Next") plus
// "self.<method>" for calls of methods on the bare receiver.
func sfFieldMethodCalls(f *engine.Fn, root ast.Node) []string {
	info := f.Info()
	recv := sfRecvObj(f)
	set := map[string]bool{}
	ast.Inspect(root, func(n ast.Node) bool {
		if _, ok := n.(*ast.FuncLit); ok {
			return false
		}
		c, ok := n.(*ast.CallExpr)
		if !ok {
			return true
		}
		if fld, m := sfMethodOnField(info, c); fld != nil {
			set[fld.Name()+"."+m] = true
		} else if se, ok := ast.Unparen(c.Fun).(*ast.SelectorExpr); ok && recv != nil && engine.ObjOf(info, se.X) == recv {
			set["self."+se.Sel.Name] = true
		}
		return true
	})
	var out []string
	for k := range set {
		out = append(out, k)
	}
	sort.Strings(out)
	return out
}

func sfEq(a, b []string) bool {
	if len(a) != len(b) {
		return false
	}
	for i := range a {
		if a[i] != b[i] {
			return false
		}
	}
	return true
}

func sfSorted(xs ...string) []string {
	out := append([]string{}, xs...)
	sort.Strings(out)
	return out
}

// sfSwitchOn finds the (expression) switch statements in f whose tag satisfies pred
// (the tag itself or, when the tag is a local, its single definition).
func sfSwitchOn(f *engine.Fn, pred func(ast.Expr) bool) []*ast.SwitchStmt {
	var out []*ast.SwitchStmt
	engine.InspectBody(f, func(n ast.Node) {
		sw, ok := n.(*ast.SwitchStmt)
		if !ok || sw.Tag == nil {
			return
		}
		if sfDerives(f, sw.Tag, pred, 2) {
			out = append(out, sw)
		}
	})
	return out
}

// sfReturns lists the return statements directly in f.
func sfReturns(f *engine.Fn) []*ast.ReturnStmt {
	var out []*ast.ReturnStmt
	engine.InspectBody(f, func(n ast.Node) {
		if r, ok := n.(*ast.ReturnStmt); ok {
			out = append(out, r)
		}
	})
	return out
}

// sfNamedResult returns the object of the i-th named result, or nil.
func sfNamedResult(f *engine.Fn, i int) types.Object {
	if f.Type.Results == nil {
		return nil
	}
	k := 0
	for _, fld := range f.Type.Results.List {
		if len(fld.Names) == 0 {
			k++
			continue
		}
		for _, nm := range fld.Names {
			if k == i {
				return f.Info().ObjectOf(nm)
			}
			k++
		}
	}
	return nil
}

// sfMethodsOf returns the declared methods (Fns) of the named type "pkg.T" (value or pointer receiver).
func sfMethodsOf(p *engine.Prog, pkgRel, typ string) []*engine.Fn {
	var out []*engine.Fn
	for _, f := range p.FuncsIn(pkgRel) {
		if f.Obj == nil {
			continue
		}
		if strings.HasPrefix(f.Name, pkgRel+".(*"+typ+").") || strings.HasPrefix(f.Name, pkgRel+".("+typ+").") {
			out = append(out, f)
		}
	}
	return out
}

// sfMethod finds method m of type typ with either receiver kind.
func sfMethod(c *engine.Ctx, pkgRel, typ, m string) *engine.Fn {
	if c.Prog == nil {
		return nil
	}
	if f := c.Prog.Func(pkgRel + ".(*" + typ + ")." + m); f != nil {
		return f
	}
	if f := c.Prog.Func(pkgRel + ".(" + typ + ")." + m); f != nil {
		return f
	}
	c.Undecided("anchor", pkgRel+"."+typ+"."+m, "anchored method not found (renamed or moved?)")
	return nil
}

// sfUsesOf lists every identifier use of obj inside f's body (not nested literals).
func sfUsesOf(f *engine.Fn, obj types.Object) []*ast.Ident {
	var out []*ast.Ident
	engine.InspectBody(f, func(n ast.Node) {
		if id, ok := n.(*ast.Ident); ok && f.Info().Uses[id] == obj {
			out = append(out, id)
		}
	})
	return out
}

// sfParents builds a child->parent map for the body of f (including nested literals).
func sfParents(root ast.Node) map[ast.Node]ast.Node {
	m := map[ast.Node]ast.Node{}
	var stack []ast.Node
	ast.Inspect(root, func(n ast.Node) bool {
		if n == nil {
			stack = stack[:len(stack)-1]
			return true
		}
		if len(stack) > 0 {
			m[n] = stack[len(stack)-1]
		}
		stack = append(stack, n)
		return true
	})
	return m
}

// sfTypeOfPointee renders the type T for an expression of type *T (or T itself).
func sfPointee(t types.Type) string {
	if t == nil {
		return "?"
	}
	if p, ok := t.Underlying().(*types.Pointer); ok {
		t = p.Elem()
	}
	return engine.TypeName(t)
}

// sfErrHandled: the error result of `call` is bound to a variable that is
// tested `!= nil` in an if statement dominated by the call, whose body ends in
// a no-return call (mustPanic) or, when !mustPanic, also a return statement.
// Recognised forms: `if err := call; err != nil {…}`, `x, err := call` /
// `err = call` followed by `if err != nil {…}`.
func sfErrHandled(f *engine.Fn, call *ast.CallExpr, mustPanic bool) bool {
	info := f.Info()
	var errObj types.Object
	var assign ast.Node
	engine.InspectBody(f, func(n ast.Node) {
		as, ok := n.(*ast.AssignStmt)
		if !ok || len(as.Rhs) != 1 || ast.Unparen(as.Rhs[0]) != ast.Expr(call) {
			return
		}
		last := as.Lhs[len(as.Lhs)-1]
		if id, ok := last.(*ast.Ident); ok && id.Name != "_" {
			if o := info.ObjectOf(id); o != nil && types.Identical(o.Type(), types.Universe.Lookup("error").Type()) {
				errObj, assign = o, as
			}
		}
	})
	if errObj == nil {
		return false
	}
	found := false
	engine.InspectBody(f, func(n ast.Node) {
		is, ok := n.(*ast.IfStmt)
		if !ok || found {
			return
		}
		a, b, op, isC := sfCmp(is.Cond)
		if !isC || (op != token.NEQ && op != token.EQL) || !isNil(b) || engine.ObjOf(info, a) != errObj {
			return
		}
		failing := is.Body // the branch taken when the call failed
		if op == token.EQL {
			eb, isBlock := is.Else.(*ast.BlockStmt)
			if !isBlock {
				return
			}
			failing = eb
		}
		// the if must directly follow from the assignment: same init, or assignment dominates and no reassignment in between (approximated by position)
		if is.Init != assign {
			sa, si := f.SiteOf(assign), f.SiteOf(is.Cond)
			if sa == nil || si == nil || !f.Graph().Dominates(sa, si) {
				return
			}
			// no other assignment to err between
			defs := 0
			engine.InspectBody(f, func(m ast.Node) {
				if as2, ok := m.(*ast.AssignStmt); ok && as2 != assign && as2.Pos() > assign.Pos() && as2.End() <= is.Pos() {
					for _, l := range as2.Lhs {
						if engine.ObjOf(info, l) == errObj {
							defs++
						}
					}
				}
			})
			if defs > 0 {
				return
			}
		}
		if len(failing.List) == 0 {
			return
		}
		switch last := failing.List[len(failing.List)-1].(type) {
		case *ast.ExprStmt:
			if cl, ok := last.X.(*ast.CallExpr); ok && !f.Prog.MayReturn(info, cl) {
				found = true
			}
		case *ast.ReturnStmt:
			if !mustPanic {
				found = true
			}
		}
	})
	return found
}

// sfCfgBlock is go/cfg's basic block (for avoid-sets handed to Graph.Reach).
type sfCfgBlock = cfg.Block

// =====================================================================
// Helper-transparent, polarity-based analysis (robust against extracted
// helpers, inverted conditions, hoisted locals, switch/if forms).
// =====================================================================

// sfCtx is a function body analysed in the context of a call chain that
// starts in a root function: parameters of helper bodies are bound to the
// argument expressions at the call that entered them.
type sfCtx struct {
	fn     *engine.Fn
	parent *sfCtx
	call   *ast.CallExpr // call in parent.fn that entered fn (nil for the root)
}

func sfRoot(f *engine.Fn) *sfCtx { return &sfCtx{fn: f} }

func (c *sfCtx) root() *sfCtx {
	for c.parent != nil {
		c = c.parent
	}
	return c
}

func (c *sfCtx) depth() int {
	n := 0
	for x := c; x.parent != nil; x = x.parent {
		n++
	}
	return n
}

func (c *sfCtx) has(f *engine.Fn) bool {
	for x := c; x != nil; x = x.parent {
		if x.fn == f {
			return true
		}
	}
	return false
}

// outerSite maps a site of c.fn to the site in the root function through which it is reached.
func (c *sfCtx) outerSite(s *engine.Site) *engine.Site {
	for x := c; x.parent != nil; x = x.parent {
		s = x.parent.fn.SiteOf(x.call)
		if s == nil {
			return nil
		}
	}
	return s
}

// sfParamIdx returns the index of obj among f's parameters (-1: none, -2: receiver).
func sfParamIdx(f *engine.Fn, obj types.Object) int {
	if obj == nil {
		return -1
	}
	if r := sfRecvObj(f); r != nil && r == obj {
		return -2
	}
	for i := 0; ; i++ {
		p := paramObj(f, i)
		if p == nil {
			return -1
		}
		if p == obj {
			return i
		}
	}
}

// enter returns the context of the in-program callee of call (nil when the
// callee has no body in the loaded program, is recursive, or too deep).
func (c *sfCtx) enter(call *ast.CallExpr, maxDepth int) *sfCtx {
	if c.depth() >= maxDepth {
		return nil
	}
	fn, _ := typeutil.Callee(c.fn.Info(), call).(*types.Func)
	h := c.fn.Prog.FnOf(fn)
	if h == nil || c.has(h) {
		return nil
	}
	return &sfCtx{fn: h, parent: c, call: call}
}

// arg returns the argument expression (in the parent context) bound to parameter i of c.fn.
func (c *sfCtx) arg(i int) ast.Expr {
	if c.call == nil {
		return nil
	}
	if i == -2 {
		if se, ok := ast.Unparen(c.call.Fun).(*ast.SelectorExpr); ok {
			return se.X
		}
		return nil
	}
	if sig, ok := c.fn.Obj.Type().(*types.Signature); ok && sig.Variadic() && i >= sig.Params().Len()-1 {
		return nil
	}
	if i >= 0 && i < len(c.call.Args) {
		return c.call.Args[i]
	}
	return nil
}

// sfSingleDef returns the defining expression of a local with exactly one
// definition (hoisted value / alias), else nil.
func sfSingleDef(f *engine.Fn, obj types.Object) ast.Expr {
	v, ok := obj.(*types.Var)
	if !ok || v.IsField() || sfParamIdx(f, obj) != -1 {
		return nil
	}
	defs, clean := sfDefs(f, obj)
	if !clean || len(defs) != 1 {
		return nil
	}
	return defs[0]
}

// sfRootParam resolves e through aliases and helper parameters to a
// parameter of the root function; returns its index, -2 for the root
// receiver, -1 otherwise.
func sfRootParam(c *sfCtx, e ast.Expr) int {
	for i := 0; i < 12 && e != nil; i++ {
		id, ok := ast.Unparen(e).(*ast.Ident)
		if !ok {
			return -1
		}
		obj := c.fn.Info().ObjectOf(id)
		if pi := sfParamIdx(c.fn, obj); pi != -1 {
			if c.parent == nil {
				return pi
			}
			e = c.arg(pi)
			c = c.parent
			continue
		}
		d := sfSingleDef(c.fn, obj)
		if d == nil {
			return -1
		}
		e = d
	}
	return -1
}

// sfFact: expression e (in ctx) is known to evaluate to val.
type sfFact struct {
	ctx *sfCtx
	e   ast.Expr
	val bool
}

// sfTagOf: if e is an expression of a case list of a tagged switch in f,
// returns the switch tag.
func sfTagOf(f *engine.Fn, e ast.Expr) ast.Expr {
	var tag ast.Expr
	engine.InspectBody(f, func(n ast.Node) {
		sw, ok := n.(*ast.SwitchStmt)
		if !ok || sw.Tag == nil || tag != nil {
			return
		}
		for _, cl := range sw.Body.List {
			for _, x := range cl.(*ast.CaseClause).List {
				if x == e {
					tag = sw.Tag
				}
			}
		}
	})
	return tag
}

// sfExpand splits a known boolean into the atomic facts it implies:
// true && / false || are split, ! is stripped, single-definition boolean
// locals, helper parameters and one-line boolean helpers (`return <expr>`)
// are followed. The composite itself is always kept as a fact, too.
func sfExpand(c *sfCtx, e ast.Expr, val bool, depth int, out *[]sfFact) {
	e = ast.Unparen(e)
	*out = append(*out, sfFact{c, e, val})
	if depth <= 0 {
		return
	}
	switch x := e.(type) {
	case *ast.UnaryExpr:
		if x.Op == token.NOT {
			sfExpand(c, x.X, !val, depth, out)
		}
	case *ast.BinaryExpr:
		if (x.Op == token.LAND && val) || (x.Op == token.LOR && !val) {
			sfExpand(c, x.X, val, depth, out)
			sfExpand(c, x.Y, val, depth, out)
		}
	case *ast.Ident:
		obj := c.fn.Info().ObjectOf(x)
		if pi := sfParamIdx(c.fn, obj); pi != -1 {
			if c.parent != nil {
				if a := c.arg(pi); a != nil {
					sfExpand(c.parent, a, val, depth-1, out)
				}
			}
			return
		}
		if d := sfSingleDef(c.fn, obj); d != nil {
			if _, isTA := ast.Unparen(d).(*ast.TypeAssertExpr); !isTA {
				sfExpand(c, d, val, depth-1, out)
			}
		}
	case *ast.CallExpr:
		if h := c.enter(x, 6); h != nil {
			if e2, neg, ok := sfBoolHelperBody(h.fn); ok {
				sfExpand(h, e2, val != neg, depth-1, out)
			}
		}
	}
}

// sfFactsAt lists what is known to hold when site s of c.fn executes: the
// polarity-resolved gates of s, case labels of tagged switches (as `tag ==
// label`), and, for helper bodies, the facts at the call that entered them.
func sfFactsAt(c *sfCtx, s *engine.Site) []sfFact {
	var out []sfFact
	for x, site := c, s; x != nil && site != nil; {
		for _, g := range x.fn.Graph().Gates(site) {
			if tag := sfTagOf(x.fn, g.Cond); tag != nil {
				eq := &ast.BinaryExpr{X: tag, Op: token.EQL, Y: g.Cond, OpPos: g.Cond.Pos()}
				out = append(out, sfFact{x, eq, g.OnTrue})
				continue
			}
			sfExpand(x, g.Cond, g.OnTrue, 4, &out)
		}
		if x.parent == nil {
			break
		}
		site = x.parent.fn.SiteOf(x.call)
		x = x.parent
	}
	return out
}

// sfKnown reports whether some fact with value val satisfies match.
func sfKnown(facts []sfFact, val bool, match func(c *sfCtx, e ast.Expr) bool) bool {
	for _, f := range facts {
		if f.val == val && match(f.ctx, f.e) {
			return true
		}
	}
	return false
}

// sfDS is a site reached from a root function, possibly through helpers.
type sfDS struct {
	ctx  *sfCtx
	site *engine.Site
}

func (d sfDS) outer() *engine.Site { return d.ctx.outerSite(d.site) }
func (d sfDS) facts() []sfFact     { return sfFactsAt(d.ctx, d.site) }
func (d sfDS) info() *types.Info   { return d.ctx.fn.Info() }
func (d sfDS) direct() bool        { return d.ctx.parent == nil }
func (d sfDS) callee() string      { return d.site.CalleeName() }
func (d sfDS) arg(i int) ast.Expr  { return d.site.Call.Args[i] }
func (d sfDS) rootParam(i int) int { return sfRootParam(d.ctx, d.site.Call.Args[i]) }
func (d sfDS) where() token.Pos {
	if o := d.outer(); o != nil {
		return o.Pos()
	}
	return d.site.Pos()
}

// sfCtxs lists the root context and every helper context reachable from it
// through static calls to functions of the loaded program (bounded depth).
// Functions for which stop returns true are not entered.
func sfCtxs(root *sfCtx, maxDepth int, stop func(name string) bool) []*sfCtx {
	out := []*sfCtx{root}
	for i := 0; i < len(out); i++ {
		c := out[i]
		for _, s := range c.fn.Calls() {
			if s.Call == nil || s.InGo {
				continue
			}
			if stop != nil && stop(s.CalleeName()) {
				continue
			}
			if h := c.enter(s.Call, maxDepth); h != nil {
				out = append(out, h)
			}
		}
	}
	return out
}

// sfDeepCalls returns every call site satisfying match in f or in helpers reachable from it.
func sfDeepCalls(f *engine.Fn, maxDepth int, stop func(string) bool, match func(c *sfCtx, s *engine.Site) bool) []sfDS {
	var out []sfDS
	for _, c := range sfCtxs(sfRoot(f), maxDepth, stop) {
		for _, s := range c.fn.Calls() {
			if s.Call != nil && match(c, s) {
				out = append(out, sfDS{c, s})
			}
		}
	}
	return out
}

func sfDeepCallsTo(f *engine.Fn, maxDepth int, pats ...string) []sfDS {
	stop := func(n string) bool { return engine.MatchName(n, pats...) }
	return sfDeepCalls(f, maxDepth, stop, func(c *sfCtx, s *engine.Site) bool { return engine.MatchName(s.CalleeName(), pats...) })
}

// sfDeepFieldCalls: calls `<x>.<field>.<method>()` on the given struct field.
func sfDeepFieldCalls(f *engine.Fn, maxDepth int, field *types.Var, methods ...string) []sfDS {
	return sfDeepCalls(f, maxDepth, nil, func(c *sfCtx, s *engine.Site) bool {
		fld, m := sfMethodOnField(c.fn.Info(), s.Call)
		if fld == nil || field == nil || fld != field.Origin() {
			return false
		}
		for _, x := range methods {
			if x == m {
				return true
			}
		}
		return len(methods) == 0
	})
}

// sfLeaf is one possible origin of a value.
type sfLeaf struct {
	ctx   *sfCtx
	e     ast.Expr // nil: zero value (declared without initialiser)
	facts []sfFact // what held where the value was produced
	idx   int      // result index when e is a multi-value call bound by a tuple assignment, else -1
}

// sfReachingDefs returns the assignments to obj that may reach `use` (a def
// is dropped when another def lies on every path between it and the use).
type sfDef struct {
	rhs  ast.Expr // nil for zero-value declarations
	idx  int      // result index when rhs is a multi-value call, else -1
	site *engine.Site
}

func sfReachingDefs(f *engine.Fn, obj types.Object, use *engine.Site) ([]sfDef, bool) {
	info := f.Info()
	var defs []sfDef
	clean := true
	add := func(n ast.Node, rhs ast.Expr, idx int) {
		defs = append(defs, sfDef{rhs, idx, f.SiteOf(n)})
	}
	engine.InspectBody(f, func(n ast.Node) {
		switch s := n.(type) {
		case *ast.AssignStmt:
			for i, l := range s.Lhs {
				id, isId := ast.Unparen(l).(*ast.Ident)
				if !isId || info.ObjectOf(id) != obj {
					continue
				}
				if s.Tok != token.ASSIGN && s.Tok != token.DEFINE {
					clean = false
					continue
				}
				if len(s.Rhs) == len(s.Lhs) {
					add(s, s.Rhs[i], -1)
				} else if len(s.Rhs) == 1 {
					add(s, s.Rhs[0], i)
				}
			}
		case *ast.ValueSpec:
			for i, id := range s.Names {
				if info.ObjectOf(id) != obj {
					continue
				}
				switch {
				case len(s.Values) == len(s.Names):
					add(s, s.Values[i], -1)
				case len(s.Values) == 1:
					add(s, s.Values[0], i)
				default:
					add(s, nil, -1)
				}
			}
		case *ast.IncDecStmt:
			if id, isId := ast.Unparen(s.X).(*ast.Ident); isId && info.ObjectOf(id) == obj {
				clean = false
			}
		case *ast.UnaryExpr:
			if s.Op == token.AND {
				if id, isId := ast.Unparen(s.X).(*ast.Ident); isId && info.ObjectOf(id) == obj {
					clean = false
				}
			}
		case *ast.RangeStmt:
			for _, l := range []ast.Expr{s.Key, s.Value} {
				if id, isId := l.(*ast.Ident); isId && info.ObjectOf(id) == obj {
					clean = false
				}
			}
		}
	})
	// named results start at their zero value
	if f.Type.Results != nil {
		for _, fld := range f.Type.Results.List {
			for _, nm := range fld.Names {
				if info.ObjectOf(nm) == obj {
					defs = append(defs, sfDef{nil, -1, nil})
				}
			}
		}
	}
	if use == nil {
		return defs, clean
	}
	g := f.Graph()
	before := func(a, b *engine.Site) bool { // a executes before b inside one block
		return a.Block == b.Block && (a.Idx < b.Idx || (a.Idx == b.Idx && a.Node.End() <= b.Node.Pos()))
	}
	var out []sfDef
	for _, d := range defs {
		// killers: the other definitions
		avoid := map[*sfCfgBlock]bool{}
		killedLocal := false
		for _, k := range defs {
			if k.site == nil || k.site == d.site {
				continue
			}
			if before(k.site, use) && (d.site == nil || d.site.Block != use.Block || before(d.site, k.site)) {
				killedLocal = true // a later definition in the block of the use
			}
			if d.site != nil && before(d.site, k.site) && !(k.site.Block == use.Block && before(use, k.site)) {
				if d.site.Block != use.Block || !before(d.site, use) || before(k.site, use) {
					killedLocal = true // re-defined right after d in d's own block
				}
			}
			if k.site.Block != use.Block && (d.site == nil || k.site.Block != d.site.Block) {
				avoid[k.site.Block] = true
			}
		}
		if killedLocal {
			continue
		}
		reaches := false
		switch {
		case d.site == nil: // initial value: a path from the entry that meets no definition
			reaches = len(g.CFG.Blocks) > 0 && (g.CFG.Blocks[0] == use.Block || g.Reach(g.CFG.Blocks[0], use.Block, avoid))
			if avoid[g.CFG.Blocks[0]] {
				reaches = false
			}
		case before(d.site, use):
			reaches = true
		default:
			for _, sc := range d.site.Block.Succs {
				if sc == use.Block || g.Reach(sc, use.Block, avoid) {
					reaches = true
				}
			}
		}
		if reaches {
			out = append(out, d)
		}
	}
	return out, clean
}

// sfLeafs resolves the possible origins of the value of e evaluated at site
// `at` of c.fn: locals are followed to their reaching definitions, helper
// parameters to the call-site arguments, results of in-program helpers to
// their return expressions. Calls for which stop is true are leaves.
func sfLeafs(c *sfCtx, e ast.Expr, at *engine.Site, depth int, stop func(c *sfCtx, call *ast.CallExpr) bool) []sfLeaf {
	var out []sfLeaf
	sfLeafsRec(c, e, at, -1, depth, stop, nil, &out)
	return out
}

func sfLeafsRec(c *sfCtx, e ast.Expr, at *engine.Site, idx, depth int, stop func(*sfCtx, *ast.CallExpr) bool, facts []sfFact, out *[]sfLeaf) {
	if e == nil {
		*out = append(*out, sfLeaf{c, nil, facts, -1})
		return
	}
	e = ast.Unparen(e)
	if depth <= 0 {
		*out = append(*out, sfLeaf{c, e, facts, idx})
		return
	}
	switch x := e.(type) {
	case *ast.Ident:
		if sfLeafsVar(c, c.fn.Info().ObjectOf(x), at, depth, stop, facts, out) {
			return
		}
	case *ast.CallExpr:
		if stop != nil && stop(c, x) {
			break
		}
		if h := c.enter(x, 6); h != nil {
			want := idx
			if want < 0 {
				want = 0
			}
			rs := sfReturns(h.fn)
			if len(rs) == 0 {
				break
			}
			for _, r := range rs {
				rsite := h.fn.SiteOf(r)
				rf := facts
				if rsite != nil {
					rf = append(append([]sfFact{}, facts...), sfFactsAt(h, rsite)...)
				}
				if len(r.Results) > want {
					sfLeafsRec(h, r.Results[want], rsite, -1, depth-1, stop, rf, out)
				} else if len(r.Results) == 0 {
					if nr := sfNamedResult(h.fn, want); nr == nil || !sfLeafsVar(h, nr, rsite, depth-1, stop, rf, out) {
						*out = append(*out, sfLeaf{h, nil, rf, -1})
					}
				}
			}
			return
		}
	}
	*out = append(*out, sfLeaf{c, e, facts, idx})
}

// sfLeafsVar resolves a local variable / parameter / named result; false when obj is not one.
func sfLeafsVar(c *sfCtx, obj types.Object, at *engine.Site, depth int, stop func(*sfCtx, *ast.CallExpr) bool, facts []sfFact, out *[]sfLeaf) bool {
	v, isVar := obj.(*types.Var)
	if !isVar || v.IsField() || v.Pkg() == nil || v.Parent() == v.Pkg().Scope() {
		return false
	}
	if c.fn.Parent != nil && !(c.fn.Body.Pos() <= obj.Pos() && obj.Pos() < c.fn.Body.End()) && sfParamIdx(c.fn, obj) == -1 {
		// a variable captured by a function literal: resolve it in the enclosing function (flow-insensitively)
		return sfLeafsVar(&sfCtx{fn: c.fn.Parent, parent: c.parent, call: c.call}, obj, nil, depth, stop, facts, out)
	}
	defs, clean := sfReachingDefs(c.fn, obj, at)
	if !clean {
		return false
	}
	if pi := sfParamIdx(c.fn, obj); pi != -1 {
		// the incoming argument also reaches the use unless a re-assignment lies on every path
		covered := false
		for _, d := range defs {
			if d.site != nil && at != nil && c.fn.Graph().Dominates(d.site, at) {
				covered = true
			}
		}
		if len(defs) > 0 && !covered {
			if c.parent != nil && c.arg(pi) != nil {
				sfLeafsRec(c.parent, c.arg(pi), c.parent.fn.SiteOf(c.call), -1, depth-1, stop, facts, out)
			} else {
				*out = append(*out, sfLeaf{c, &ast.Ident{Name: obj.Name()}, facts, -1})
			}
		}
		if len(defs) == 0 {
			// a parameter that is never re-assigned resolves to the caller's argument
			if c.parent == nil {
				return false
			}
			a := c.arg(pi)
			if a == nil {
				return false
			}
			sfLeafsRec(c.parent, a, c.parent.fn.SiteOf(c.call), -1, depth-1, stop, facts, out)
			return true
		}
	} else if len(defs) == 0 {
		return false
	}
	for _, d := range defs {
		df := facts
		if d.site != nil {
			df = append(append([]sfFact{}, facts...), sfFactsAt(c, d.site)...)
		}
		if d.rhs == nil {
			*out = append(*out, sfLeaf{c, nil, df, -1})
			continue
		}
		sfLeafsRec(c, d.rhs, d.site, d.idx, depth-1, stop, df, out)
	}
	return true
}

// sfAllLeafs: every origin of e satisfies pred (and there is at least one).
func sfAllLeafs(ls []sfLeaf, pred func(l sfLeaf) bool) bool {
	if len(ls) == 0 {
		return false
	}
	for _, l := range ls {
		if !pred(l) {
			return false
		}
	}
	return true
}

// sfConstBool evaluates a constant boolean expression (literal or named constant).
func sfConstBool(info *types.Info, e ast.Expr) (val, ok bool) {
	if tv, has := info.Types[e]; has && tv.Value != nil && tv.Value.Kind() == constant.Bool {
		return constant.BoolVal(tv.Value), true
	}
	return false, false
}

// sfConstInt evaluates a constant integer expression.
func sfConstInt(info *types.Info, e ast.Expr) (int64, bool) {
	if tv, has := info.Types[e]; has && tv.Value != nil && tv.Value.Kind() == constant.Int {
		if v, exact := constant.Int64Val(tv.Value); exact {
			return v, true
		}
	}
	return 0, false
}

// sfCmpNorm decomposes a comparison, also accepting the synthetic `tag == label`.
func sfCmpNorm(e ast.Expr) (a, b ast.Expr, op token.Token, ok bool) { return sfCmp(e) }

// sfCallerClosureOK: name is in allowed, or is an unexported function whose
// every caller (transitively, bounded) is.
func sfCallerClosureOK(p *engine.Prog, name string, allowed map[string]bool, depth int) bool {
	if allowed[name] {
		return true
	}
	if depth <= 0 {
		return false
	}
	f := p.Func(name)
	if f == nil || f.Obj == nil || f.Obj.Exported() {
		return false
	}
	callers := engine.CallerSet(p.RefsToFunc(name))
	if len(callers) == 0 {
		return false
	}
	for _, cl := range callers {
		if cl == name {
			continue
		}
		if !sfCallerClosureOK(p, cl, allowed, depth-1) {
			return false
		}
	}
	return true
}

// sfWritersOK returns the writers that are neither allowed nor helpers of allowed functions.
func sfWritersOK(p *engine.Prog, writers []string, allowed []string) (bad []string) {
	am := map[string]bool{}
	for _, a := range allowed {
		am[a] = true
	}
	for _, w := range writers {
		if !sfCallerClosureOK(p, w, am, 3) {
			bad = append(bad, w)
		}
	}
	return bad
}

// sfDomDS: deep site a executes before deep site b on every path.
func sfDomDS(a, b sfDS) bool {
	if sfSameCtx(a.ctx, b.ctx) {
		return a.ctx.fn.Graph().Dominates(a.site, b.site)
	}
	// lift both to their nearest common context
	for x := a.ctx; x != nil; x = x.parent {
		for y := b.ctx; y != nil; y = y.parent {
			if !sfSameCtx(x, y) {
				continue
			}
			sa, sb := sfSiteIn(a, x), sfSiteIn(b, x)
			return sa != nil && sb != nil && sa != sb && x.fn.Graph().Dominates(sa, sb)
		}
	}
	return false
}

// sfSiteIn returns the site in context anc through which d is reached.
func sfSiteIn(d sfDS, anc *sfCtx) *engine.Site {
	s := d.site
	for x := d.ctx; !sfSameCtx(x, anc); x = x.parent {
		if x == nil || x.parent == nil {
			return nil
		}
		s = x.parent.fn.SiteOf(x.call)
	}
	return s
}

// sfFieldCallIs: e is the call `<x>.<field>.<method>(…)`.
func sfFieldCallIs(c *sfCtx, e ast.Expr, field *types.Var, method string) bool {
	cl, ok := ast.Unparen(e).(*ast.CallExpr)
	if !ok || field == nil {
		return false
	}
	fld, m := sfMethodOnField(c.fn.Info(), cl)
	return fld == field.Origin() && m == method
}

// c22Uniq removes adjacent duplicates of a sorted slice.
func c22Uniq(xs []string) []string {
	var out []string
	for i, x := range xs {
		if i == 0 || x != xs[i-1] {
			out = append(out, x)
		}
	}
	return out
}

// sfSameCtx: the same function entered through the same chain of calls.
func sfSameCtx(a, b *sfCtx) bool {
	for a != nil && b != nil {
		if a == b {
			return true
		}
		if a.fn != b.fn || a.call != b.call {
			return false
		}
		a, b = a.parent, b.parent
	}
	return a == nil && b == nil
}

// sfOperandIs: every origin of e (aliases, helper parameters followed) satisfies pred.
func sfOperandIs(cx *sfCtx, e ast.Expr, pred func(c *sfCtx, x ast.Expr) bool) bool {
	stop := func(c *sfCtx, cl *ast.CallExpr) bool { return pred(c, cl) } // a call that already is what we look for is not entered
	return sfAllLeafs(sfLeafs(cx, e, nil, 3, stop), func(l sfLeaf) bool { return l.e != nil && pred(l.ctx, l.e) })
}

// sfIsField returns a predicate "x selects the given struct field".
func sfIsField(fld *types.Var) func(*sfCtx, ast.Expr) bool {
	return func(c *sfCtx, x ast.Expr) bool { return sfFieldSel(c.fn.Info(), x, fld) }
}

// sfReachAfterDS: b can execute after a (lifted to their nearest common context).
func sfReachAfterDS(a, b sfDS) bool {
	for x := a.ctx; x != nil; x = x.parent {
		for y := b.ctx; y != nil; y = y.parent {
			if !sfSameCtx(x, y) {
				continue
			}
			sa, sb := sfSiteIn(a, x), sfSiteIn(b, x)
			return sa != nil && sb != nil && x.fn.Graph().ReachableAfter(sa, sb)
		}
	}
	return false
}

// sfErrCmp: e compares a value of type error with nil (== or !=); the variable's name is irrelevant.
func sfErrCmp(info *types.Info, e ast.Expr) bool {
	a, b, op, ok := sfCmp(e)
	if !ok || (op != token.NEQ && op != token.EQL) {
		return false
	}
	if isNil(a) {
		a, b = b, a
	}
	if !isNil(b) {
		return false
	}
	t := info.TypeOf(a)
	return t != nil && types.Identical(t, types.Universe.Lookup("error").Type())
}

// sfBoolResolve follows a boolean expression through single-definition locals,
// helper parameters and one-line boolean helpers (`return <expr>`) to the
// expression that really decides it (with the context it must be read in).
func sfBoolResolve(c *sfCtx, e ast.Expr) (*sfCtx, ast.Expr) {
	for i := 0; i < 6; i++ {
		e = ast.Unparen(e)
		switch x := e.(type) {
		case *ast.Ident:
			obj := c.fn.Info().ObjectOf(x)
			if pi := sfParamIdx(c.fn, obj); pi != -1 {
				if c.parent == nil || c.arg(pi) == nil {
					return c, e
				}
				c, e = c.parent, c.arg(pi)
				continue
			}
			d := sfSingleDef(c.fn, obj)
			if d == nil {
				return c, e
			}
			e = d
			continue
		case *ast.CallExpr:
			h := c.enter(x, 6)
			if h == nil {
				return c, e
			}
			e2, neg, ok := sfBoolHelperBody(h.fn)
			if !ok {
				return c, e
			}
			if neg {
				e2 = &ast.UnaryExpr{Op: token.NOT, X: e2, OpPos: e2.Pos()}
			}
			c, e = h, e2
			continue
		}
		return c, e
	}
	return c, e
}

// sfAtomicFacts drops the composite (&&, ||, !) facts, keeping the atoms that were split out of them
// and the composites that could not be split.
func sfAtomicFacts(facts []sfFact) []sfFact {
	var out []sfFact
	for _, ft := range facts {
		e := ast.Unparen(ft.e)
		if u, ok := e.(*ast.UnaryExpr); ok && u.Op == token.NOT {
			continue
		}
		if b, ok := e.(*ast.BinaryExpr); ok && ((b.Op == token.LAND && ft.val) || (b.Op == token.LOR && !ft.val)) {
			continue
		}
		out = append(out, ft)
	}
	return out
}

// sfBoolHelperBody recognises a boolean helper body that is decided by one
// expression: `return <expr>` (neg=false) or `if <expr> { return K }; return !K`
// (result == K exactly when expr holds; neg = !K).
func sfBoolHelperBody(h *engine.Fn) (expr ast.Expr, neg, ok bool) {
	list := h.Body.List
	if len(list) == 1 {
		if r, isR := list[0].(*ast.ReturnStmt); isR && len(r.Results) == 1 {
			return r.Results[0], false, true
		}
		return nil, false, false
	}
	if len(list) == 2 {
		is, isIf := list[0].(*ast.IfStmt)
		r2, isR := list[1].(*ast.ReturnStmt)
		if !isIf || !isR || is.Init != nil || is.Else != nil || len(is.Body.List) != 1 || len(r2.Results) != 1 {
			return nil, false, false
		}
		r1, isR1 := is.Body.List[0].(*ast.ReturnStmt)
		if !isR1 || len(r1.Results) != 1 {
			return nil, false, false
		}
		k1, c1 := sfConstBool(h.Info(), r1.Results[0])
		k2, c2 := sfConstBool(h.Info(), r2.Results[0])
		if c1 && c2 && k1 != k2 {
			return is.Cond, !k1, true
		}
	}
	return nil, false, false
}

// sfErrPathChecked: path-based error handling. The error result of `call` is
// bound to a variable; every path from the call to a return, to the next loop
// iteration or to a re-assignment of that variable first passes a test of the
// variable against nil whose failing branch returns the error (or, with
// mustPanic, never returns normally).
func sfErrPathChecked(f *engine.Fn, call *ast.CallExpr, mustPanic bool) bool {
	info := f.Info()
	g := f.Graph()
	var errObj types.Object
	var assign ast.Node
	engine.InspectBody(f, func(n ast.Node) {
		as, ok := n.(*ast.AssignStmt)
		if !ok || len(as.Rhs) != 1 || ast.Unparen(as.Rhs[0]) != ast.Expr(call) {
			return
		}
		if id, ok := as.Lhs[len(as.Lhs)-1].(*ast.Ident); ok && id.Name != "_" {
			if o := info.ObjectOf(id); o != nil && types.Identical(o.Type(), types.Universe.Lookup("error").Type()) {
				errObj, assign = o, as
			}
		}
	})
	cs := f.SiteOf(call)
	if errObj == nil || cs == nil {
		return false
	}
	// condition blocks testing errObj, with their failing successor
	tests := map[*sfCfgBlock]bool{}
	for _, b := range g.CFG.Blocks {
		cond := g.CondOf(b)
		if cond == nil {
			continue
		}
		a, bb, op, isC := sfCmp(cond)
		if !isC || !isNil(bb) || engine.ObjOf(info, a) != errObj || (op != token.NEQ && op != token.EQL) {
			continue
		}
		fail := b.Succs[0]
		if op == token.EQL {
			fail = b.Succs[1]
		}
		// the failing branch must hand the error on (or never return)
		okFail := false
		if r := fail.Return(); r != nil {
			for _, e := range r.Results {
				if engine.Mentions(info, e, errObj) {
					okFail = !mustPanic
				}
			}
		} else if len(fail.Succs) == 0 && len(fail.Nodes) > 0 {
			if es, isES := fail.Nodes[len(fail.Nodes)-1].(*ast.ExprStmt); isES {
				if cl, isCl := es.X.(*ast.CallExpr); isCl && !f.Prog.MayReturn(info, cl) {
					okFail = true
				}
			}
		}
		if okFail {
			tests[b] = true
		}
	}
	if len(tests) == 0 {
		return false
	}
	if tests[cs.Block] {
		return true // `if err := call(); err != nil { return err }`
	}
	// blocks that must not be reached before a test: returns, loop heads, other definitions of errObj
	bad := func(b *sfCfgBlock) bool {
		if !b.Live {
			return false
		}
		if b.Return() != nil || (len(b.Succs) == 0) {
			return true
		}
		switch b.Kind {
		case cfg.KindForLoop, cfg.KindForPost, cfg.KindRangeLoop:
			return true
		}
		for _, n := range b.Nodes {
			if as, ok := n.(*ast.AssignStmt); ok && as != assign {
				for _, l := range as.Lhs {
					if engine.ObjOf(info, l) == errObj {
						return true
					}
				}
			}
		}
		return false
	}
	seen := map[*sfCfgBlock]bool{}
	stack := append([]*sfCfgBlock{}, cs.Block.Succs...)
	for len(stack) > 0 {
		b := stack[len(stack)-1]
		stack = stack[:len(stack)-1]
		if seen[b] || tests[b] {
			continue
		}
		seen[b] = true
		if bad(b) {
			return false
		}
		stack = append(stack, b.Succs...)
	}
	return true
}
