package checks

// Helpers of the cryptoJ checks (C45–C48, C50, C51). All names carry the cj
// prefix. The SSA helpers decide "the verdict of this call is tested and the
// good edge dominates that use" exactly (edge dominance on go/ssa blocks), which
// the AST engine can only approximate when the error variable is reused.

import (
	"fmt"
	"go/ast"
	"go/constant"
	"go/token"
	"go/types"
	"sort"
	"strings"

	"golang.org/x/tools/go/ssa"

	"gnoverif/engine"
)

// ---------- SSA ----------

// cjSSA returns the SSA function of f, or records an UNDECIDED obligation.
func cjSSA(c *engine.Ctx, p *engine.Prog, f *engine.Fn) *ssa.Function {
	if f == nil {
		return nil
	}
	sf := p.SSAFunc(f)
	if sf == nil || len(sf.Blocks) == 0 {
		c.Undecided("ssa", f.Name, "no SSA body for the anchored function")
		return nil
	}
	return sf
}

// cjCalleeName renders the callee of an SSA call: static callee or interface method.
func cjCalleeName(ci ssa.CallInstruction) string {
	cc := ci.Common()
	if cc.IsInvoke() {
		return engine.FuncName(cc.Method)
	}
	if sc := cc.StaticCallee(); sc != nil {
		if o, ok := sc.Object().(*types.Func); ok && o != nil {
			return engine.FuncName(o)
		}
		return sc.String()
	}
	if b, ok := cc.Value.(*ssa.Builtin); ok {
		return "builtin." + b.Name()
	}
	return ""
}

// cjSSACalls returns the calls of fn (not of nested closures) whose callee name matches.
func cjSSACalls(fn *ssa.Function, pats ...string) []*ssa.Call {
	var out []*ssa.Call
	for _, b := range fn.Blocks {
		for _, in := range b.Instrs {
			if call, ok := in.(*ssa.Call); ok && engine.MatchName(cjCalleeName(call), pats...) {
				out = append(out, call)
			}
		}
	}
	return out
}

// cjResult returns the SSA value of result idx of call: the call itself for
// single-result callees, the Extract otherwise (nil when the result is dropped).
func cjResult(call *ssa.Call, idx int) ssa.Value {
	sig := call.Common().Signature()
	if sig.Results().Len() == 1 {
		if idx == 0 {
			return call
		}
		return nil
	}
	for _, r := range *call.Referrers() {
		if e, ok := r.(*ssa.Extract); ok && e.Index == idx {
			return e
		}
	}
	return nil
}

// cjEdgeDominates: the edge from block b to its successor number si dominates
// target (every path to target runs through that edge).
func cjEdgeDominates(b *ssa.BasicBlock, si int, target *ssa.BasicBlock) bool {
	if si >= len(b.Succs) {
		return false
	}
	s := b.Succs[si]
	if !s.Dominates(target) {
		return false
	}
	for _, p := range s.Preds {
		if p == b {
			continue
		}
		if !s.Dominates(p) { // another way into s that does not come from inside s
			return false
		}
	}
	// b must reach s only through edge si (both edges to the same block = no gate)
	for j, o := range b.Succs {
		if j != si && o == s {
			return false
		}
	}
	return true
}

func cjIsNilConst(v ssa.Value) bool {
	k, ok := v.(*ssa.Const)
	return ok && k.Value == nil
}

// cjVerdictEdges lists the (block, successor index) edges taken exactly when
// the verdict value is "good": err == nil resp. ok == true.
type cjEdge struct {
	B  *ssa.BasicBlock
	SI int
}

func cjVerdictEdges(verdict ssa.Value) []cjEdge {
	var out []cjEdge
	if verdict == nil || verdict.Referrers() == nil {
		return nil
	}
	isErr := types.IsInterface(verdict.Type())
	addIf := func(cond ssa.Value, goodIdx int) {
		for _, r := range *cond.Referrers() {
			if i, ok := r.(*ssa.If); ok && i.Cond == cond {
				out = append(out, cjEdge{i.Block(), goodIdx})
			}
		}
	}
	for _, r := range *verdict.Referrers() {
		switch x := r.(type) {
		case *ssa.BinOp:
			if !isErr {
				continue
			}
			other := x.Y
			if x.Y == verdict {
				other = x.X
			}
			if !cjIsNilConst(other) {
				continue
			}
			switch x.Op {
			case token.NEQ:
				addIf(x, 1)
			case token.EQL:
				addIf(x, 0)
			}
		case *ssa.If:
			if !isErr && x.Cond == verdict {
				out = append(out, cjEdge{x.Block(), 0})
			}
		case *ssa.UnOp:
			if !isErr && x.Op == token.NOT {
				addIf(x, 1)
			}
		}
	}
	return out
}

// cjGated: target block is reached only through a good edge of the verdict.
func cjGated(verdict ssa.Value, target *ssa.BasicBlock) bool {
	for _, e := range cjVerdictEdges(verdict) {
		if cjEdgeDominates(e.B, e.SI, target) {
			return true
		}
	}
	return false
}

// cjUsesGated checks that every use of every non-verdict result of call is
// reached only after the verdict (result number vIdx) tested good, or is a
// return that hands the verdict on unchanged together with the value.
func cjUsesGated(call *ssa.Call, vIdx int) (bool, string) {
	verdict := cjResult(call, vIdx)
	if verdict == nil {
		return false, "the verdict result is discarded"
	}
	n := call.Common().Signature().Results().Len()
	for i := 0; i < n; i++ {
		if i == vIdx {
			continue
		}
		val := cjResult(call, i)
		if val == nil {
			continue
		}
		for _, r := range *val.Referrers() {
			if phi, ok := r.(*ssa.Phi); ok {
				// the value flows along specific incoming edges only
				bad := false
				for k, e := range phi.Edges {
					if e != val {
						continue
					}
					pred := phi.Block().Preds[k]
					okEdge := cjGated(verdict, pred)
					for _, ve := range cjVerdictEdges(verdict) {
						// the incoming edge is itself the good edge of the verdict test
						if ve.B == pred && pred.Succs[ve.SI] == phi.Block() && pred.Succs[1-ve.SI] != phi.Block() {
							okEdge = true
						}
					}
					if !okEdge {
						bad = true
					}
				}
				if !bad {
					continue
				}
			}
			if ret, ok := r.(*ssa.Return); ok {
				pass := false
				for _, o := range ret.Results {
					if o == verdict {
						pass = true
					}
				}
				if pass {
					continue
				}
			}
			if !cjGated(verdict, r.Block()) {
				return false, fmt.Sprintf("result #%d is used (%s) on a path where the verdict was not tested good", i, cjInstrText(r))
			}
		}
	}
	return true, "every use of the results is dominated by the good edge of the verdict test (or the verdict is returned with them)"
}

func cjInstrText(in ssa.Instruction) string {
	s := in.String()
	if len(s) > 60 {
		s = s[:60] + "…"
	}
	return fmt.Sprintf("%T %s", in, s)
}

// cjSuccessReturns returns the Return instructions whose error result (last
// result of interface type error) is the nil constant.
func cjSuccessReturns(fn *ssa.Function) []*ssa.Return {
	var out []*ssa.Return
	for _, b := range fn.Blocks {
		for _, in := range b.Instrs {
			ret, ok := in.(*ssa.Return)
			if !ok || len(ret.Results) == 0 {
				continue
			}
			last := ret.Results[len(ret.Results)-1]
			if types.IsInterface(last.Type()) && cjIsNilConst(last) {
				out = append(out, ret)
			}
		}
	}
	return out
}

// cjConstInt extracts an integer constant SSA value.
func cjConstInt(v ssa.Value) (int64, bool) {
	k, ok := v.(*ssa.Const)
	if !ok || k.Value == nil || k.Value.Kind() != constant.Int {
		return 0, false
	}
	return k.Int64(), true
}

// cjIsLenCall: v is len(x); returns x.
func cjIsLenCall(v ssa.Value) (ssa.Value, bool) {
	call, ok := v.(*ssa.Call)
	if !ok {
		return nil, false
	}
	b, ok := call.Call.Value.(*ssa.Builtin)
	if !ok || b.Name() != "len" || len(call.Call.Args) != 1 {
		return nil, false
	}
	return call.Call.Args[0], true
}

// cjStrip removes value-preserving wrappers (ChangeType, Convert between string types, MakeInterface).
func cjStrip(v ssa.Value) ssa.Value {
	for {
		switch x := v.(type) {
		case *ssa.ChangeType:
			v = x.X
		case *ssa.MakeInterface:
			v = x.X
		default:
			return v
		}
	}
}

// ---------- AST ----------

// cjConstOf returns the constant integer value of an expression, if it has one.
func cjConstOf(info *types.Info, e ast.Expr) (int64, bool) {
	tv, ok := info.Types[e]
	if !ok || tv.Value == nil {
		return 0, false
	}
	if tv.Value.Kind() != constant.Int {
		return 0, false
	}
	v, ok := constant.Int64Val(tv.Value)
	return v, ok
}

func cjConstBool(info *types.Info, e ast.Expr) (bool, bool) {
	tv, ok := info.Types[e]
	if !ok || tv.Value == nil || tv.Value.Kind() != constant.Bool {
		return false, false
	}
	return constant.BoolVal(tv.Value), true
}

// cjReturns lists the return statements of f's own body.
func cjReturns(f *engine.Fn) []*ast.ReturnStmt {
	var out []*ast.ReturnStmt
	engine.InspectBody(f, func(n ast.Node) {
		if r, ok := n.(*ast.ReturnStmt); ok {
			out = append(out, r)
		}
	})
	return out
}

// cjParam returns the object of the parameter with the given name.
func cjParam(f *engine.Fn, name string) types.Object {
	for _, fld := range f.Type.Params.List {
		for _, nm := range fld.Names {
			if nm.Name == name {
				return f.Info().ObjectOf(nm)
			}
		}
	}
	return nil
}

// cjRecv returns the receiver object of a method declaration.
func cjRecv(f *engine.Fn) types.Object {
	if f.Decl == nil || f.Decl.Recv == nil || len(f.Decl.Recv.List) == 0 || len(f.Decl.Recv.List[0].Names) == 0 {
		return nil
	}
	return f.Info().ObjectOf(f.Decl.Recv.List[0].Names[0])
}

// cjPanicSites lists the constructs of f's own body that can raise a run-time
// panic by themselves: explicit panic / no-return calls, Must*-named callees,
// unchecked type assertions, index or slice expressions on slices and strings
// (arrays and pointers to arrays with absent or constant in-range bounds and
// map indexing are safe), and integer division by a non-constant.
func cjPanicSites(f *engine.Fn) []string {
	info := f.Info()
	var out []string
	commaOK := map[ast.Expr]bool{}
	engine.InspectBody(f, func(n ast.Node) {
		switch x := n.(type) {
		case *ast.AssignStmt:
			if len(x.Lhs) == 2 && len(x.Rhs) == 1 {
				commaOK[ast.Unparen(x.Rhs[0])] = true
			}
		case *ast.ValueSpec:
			if len(x.Names) == 2 && len(x.Values) == 1 {
				commaOK[ast.Unparen(x.Values[0])] = true
			}
		case *ast.TypeSwitchStmt:
			switch a := x.Assign.(type) {
			case *ast.AssignStmt:
				commaOK[ast.Unparen(a.Rhs[0])] = true
			case *ast.ExprStmt:
				commaOK[ast.Unparen(a.X)] = true
			}
		}
	})
	arrayLike := func(t types.Type) (int64, bool) {
		t = t.Underlying()
		if p, ok := t.(*types.Pointer); ok {
			t = p.Elem().Underlying()
		}
		if a, ok := t.(*types.Array); ok {
			return a.Len(), true
		}
		return 0, false
	}
	engine.InspectBody(f, func(n ast.Node) {
		switch x := n.(type) {
		case *ast.CallExpr:
			if !f.Prog.MayReturn(info, x) {
				out = append(out, "no-return call "+engine.ExprString(x.Fun))
				return
			}
			var id *ast.Ident
			switch fn := ast.Unparen(x.Fun).(type) {
			case *ast.Ident:
				id = fn
			case *ast.SelectorExpr:
				id = fn.Sel
			}
			if id != nil {
				if _, isFunc := info.Uses[id].(*types.Func); isFunc && strings.HasPrefix(id.Name, "Must") {
					out = append(out, "Must-call "+id.Name)
				}
			}
		case *ast.TypeAssertExpr:
			if x.Type != nil && !commaOK[x] {
				out = append(out, "unchecked type assertion "+engine.ExprString(x))
			}
		case *ast.IndexExpr:
			t := info.TypeOf(x.X)
			if t == nil {
				return
			}
			if _, isMap := t.Underlying().(*types.Map); isMap {
				return
			}
			if _, isSig := t.Underlying().(*types.Signature); isSig {
				return // generic instantiation
			}
			if tv, ok := info.Types[x.X]; ok && tv.IsType() {
				return
			}
			if n, ok := arrayLike(t); ok {
				if k, ok := cjConstOf(info, x.Index); ok && k >= 0 && k < n {
					return
				}
			}
			out = append(out, "index "+engine.ExprString(x))
		case *ast.SliceExpr:
			t := info.TypeOf(x.X)
			if t == nil {
				return
			}
			if n, ok := arrayLike(t); ok {
				safe := true
				for _, b := range []ast.Expr{x.Low, x.High, x.Max} {
					if b == nil {
						continue
					}
					if k, ok := cjConstOf(info, b); !ok || k < 0 || k > n {
						safe = false
					}
				}
				if safe {
					return
				}
			}
			if x.Low == nil && x.High == nil && x.Max == nil {
				return // s[:] never panics on slices/strings
			}
			out = append(out, "slice "+engine.ExprString(x))
		case *ast.BinaryExpr:
			if x.Op == token.QUO || x.Op == token.REM {
				if t := info.TypeOf(x); t != nil {
					if b, ok := t.Underlying().(*types.Basic); ok && b.Info()&types.IsInteger != 0 {
						if _, isConst := cjConstOf(info, x.Y); !isConst {
							out = append(out, "integer division "+engine.ExprString(x))
						}
					}
				}
			}
		}
	})
	sort.Strings(out)
	return out
}

// cjArgTexts renders the arguments of a call.
func cjArgTexts(call *ast.CallExpr) []string {
	var out []string
	for _, a := range call.Args {
		out = append(out, engine.ExprString(a))
	}
	return out
}

// cjAssignedFrom: the objects on the left of the assignment / definition whose
// right side is (contains) the call.
func cjAssignedFrom(f *engine.Fn, s *engine.Site) []types.Object {
	info := f.Info()
	var out []types.Object
	switch st := s.Top.(type) {
	case *ast.AssignStmt:
		for _, l := range st.Lhs {
			if id, ok := l.(*ast.Ident); ok && id.Name != "_" {
				out = append(out, info.ObjectOf(id))
			} else {
				out = append(out, nil)
			}
		}
	case *ast.ValueSpec:
		for _, id := range st.Names {
			if id.Name != "_" {
				out = append(out, info.ObjectOf(id))
			} else {
				out = append(out, nil)
			}
		}
	}
	return out
}

// cjErrNotNilGate: the gate tests `<err> != nil` (OnTrue) or `<err> == nil`
// (!OnTrue) alone, for the given error object: i.e. the target runs only when err != nil.
func cjErrNotNilGate(info *types.Info, gt engine.Gate, errObj types.Object) bool {
	b, ok := ast.Unparen(gt.Cond).(*ast.BinaryExpr)
	if !ok || !isNil(b.Y) || engine.ObjOf(info, b.X) != errObj {
		return false
	}
	return (b.Op == token.NEQ && gt.OnTrue) || (b.Op == token.EQL && !gt.OnTrue)
}

func cjKeys(m map[string]bool) []string {
	var out []string
	for k := range m {
		out = append(out, k)
	}
	sort.Strings(out)
	return out
}

// cjConstString extracts a string constant SSA value.
func cjConstString(v ssa.Value) (string, bool) {
	k, ok := v.(*ssa.Const)
	if !ok || k.Value == nil || k.Value.Kind() != constant.String {
		return "", false
	}
	return constant.StringVal(k.Value), true
}

// cjCmpGate: some comparison `X op K` of fn, with X satisfying isX and the
// other operand satisfying isK, has its "holds" edge (for the operator `want`)
// dominating target. E.g. want == token.EQL: target is reached only when X == K.
func cjCmpGate(fn *ssa.Function, target *ssa.BasicBlock, want token.Token, isX, isK func(ssa.Value) bool) bool {
	for _, b := range fn.Blocks {
		if len(b.Instrs) == 0 {
			continue
		}
		i, ok := b.Instrs[len(b.Instrs)-1].(*ssa.If)
		if !ok {
			continue
		}
		bo, ok := i.Cond.(*ssa.BinOp)
		if !ok {
			continue
		}
		op := bo.Op
		x, k := bo.X, bo.Y
		if !(isX(x) && isK(k)) {
			if isX(k) && isK(x) {
				x, k = k, x
				op = engine.Flip(op)
			} else {
				continue
			}
		}
		switch {
		case op == want:
			if cjEdgeDominates(b, 0, target) {
				return true
			}
		case engine.Negate(op) == want:
			if cjEdgeDominates(b, 1, target) {
				return true
			}
		}
	}
	return false
}

// cjIsMapLookup: v is m[key] (value only or comma-ok extract #0) on the given map value with a constant string key.
func cjIsMapLookup(v ssa.Value, m ssa.Value, key string) bool {
	if e, ok := v.(*ssa.Extract); ok && e.Index == 0 {
		v = e.Tuple
	}
	l, ok := v.(*ssa.Lookup)
	if !ok || l.X != m {
		return false
	}
	k, ok := cjConstString(l.Index)
	return ok && k == key
}

// cjBlockOfCall returns the calls matching pats with their blocks (including in nested closures = false).
func cjFirstCall(fn *ssa.Function, pats ...string) *ssa.Call {
	cs := cjSSACalls(fn, pats...)
	if len(cs) == 0 {
		return nil
	}
	return cs[0]
}

// cjReaches: block `from` can reach block `to`.
func cjReaches(from, to *ssa.BasicBlock) bool {
	seen := map[*ssa.BasicBlock]bool{from: true}
	st := []*ssa.BasicBlock{from}
	for len(st) > 0 {
		b := st[len(st)-1]
		st = st[:len(st)-1]
		if b == to {
			return true
		}
		for _, s := range b.Succs {
			if !seen[s] {
				seen[s] = true
				st = append(st, s)
			}
		}
	}
	return false
}

// cjBoundAtoms collects, from the gates of target that are taken on the false
// branch, the comparisons `expr op const` (atoms of the || condition). The
// returned strings are "<op><const>" for plain operands and "%<m><op><const>" for
// `x % m op const`, restricted to comparisons whose left side mentions obj.
func cjBoundAtoms(f *engine.Fn, target *engine.Site, obj types.Object) map[string]bool {
	info := f.Info()
	out := map[string]bool{}
	for _, gt := range f.Graph().Gates(target) {
		var atoms []ast.Expr
		neg := false
		if gt.OnTrue {
			atoms = engine.Conjuncts(gt.Cond, token.LAND)
		} else {
			atoms = engine.Conjuncts(gt.Cond, token.LOR)
			neg = true
		}
		for _, a := range atoms {
			b, ok := ast.Unparen(a).(*ast.BinaryExpr)
			if !ok {
				continue
			}
			k, isK := cjConstOf(info, b.Y)
			if !isK || !engine.Mentions(info, b.X, obj) {
				continue
			}
			op := b.Op
			if !neg {
				op = engine.Negate(op) // normalise to the rejecting form
			}
			lhs := ""
			if m, ok := ast.Unparen(b.X).(*ast.BinaryExpr); ok && m.Op == token.REM {
				if mv, ok := cjConstOf(info, m.Y); ok {
					lhs = fmt.Sprintf("%%%d", mv)
				}
			}
			out[fmt.Sprintf("%s%s%d", lhs, op, k)] = true
		}
	}
	return out
}

// cjWithAnon returns fn followed by its nested anonymous functions (range-over-func
// loop bodies are synthetic closures in go/ssa). nil in, nil out.
func cjWithAnon(fn *ssa.Function) []*ssa.Function {
	if fn == nil {
		return nil
	}
	out := []*ssa.Function{fn}
	for _, a := range fn.AnonFuncs {
		out = append(out, cjWithAnon(a)...)
	}
	return out
}

// ---------- nilness (forward must-facts over go/ssa blocks) ----------

// cjNil is the per-block result: Facts[v] == 1 means v is known nil on entry,
// 2 known non-nil; Dead means no feasible path reaches the block.
type cjNil struct {
	Facts map[ssa.Value]int8
	Dead  bool
}

// cjEdgeFacts returns the facts established by taking successor si of block b.
// sizeOf (optional) recognises `n := recv.Size()` style calls: a positive / non-zero
// result implies the receiver is non-nil (the callee returns 0 for nil; checked separately).
func cjEdgeFacts(b *ssa.BasicBlock, si int, sizeOf func(ssa.Value) ssa.Value, canon func(ssa.Value) ssa.Value) map[ssa.Value]int8 {
	out := map[ssa.Value]int8{}
	if len(b.Instrs) == 0 {
		return out
	}
	i, ok := b.Instrs[len(b.Instrs)-1].(*ssa.If)
	if !ok {
		return out
	}
	bo, ok := i.Cond.(*ssa.BinOp)
	if !ok {
		return out
	}
	x, y, op := bo.X, bo.Y, bo.Op
	if cjIsNilConst(x) {
		x, y = y, x
	}
	if cjIsNilConst(y) && (op == token.EQL || op == token.NEQ) {
		isNilEdge := (op == token.EQL) == (si == 0)
		x = canon(x)
		if isNilEdge {
			out[x] = 1
		} else {
			out[x] = 2
		}
		return out
	}
	if sizeOf != nil {
		if _, isK := cjConstInt(x); isK {
			x, y, op = y, x, engine.Flip(op)
		}
		k, isK := cjConstInt(y)
		recv := sizeOf(x)
		if isK && k == 0 && recv != nil {
			holds := op
			if si == 1 {
				holds = engine.Negate(op)
			}
			if holds == token.GTR || holds == token.NEQ {
				out[recv] = 2
			}
		}
	}
	return out
}

func cjNilness(fn *ssa.Function, sizeOf func(ssa.Value) ssa.Value) map[*ssa.BasicBlock]*cjNil {
	// Path-sensitive up to a bound: each block carries a set of alternative fact maps
	// (one per distinguishable way of reaching it); an edge whose test contradicts an
	// alternative drops that alternative. The published Facts are those common to all
	// alternatives. Beyond cjMaxAlt alternatives the set collapses to its intersection.
	const cjMaxAlt = 64
	type alt = map[ssa.Value]int8
	key := func(a alt) string {
		var ks []string
		for k, v := range a {
			ks = append(ks, fmt.Sprintf("%p=%d", k, v))
		}
		sort.Strings(ks)
		return strings.Join(ks, ",")
	}
	state := map[*ssa.BasicBlock]map[string]alt{}
	res := map[*ssa.BasicBlock]*cjNil{}
	if len(fn.Blocks) == 0 {
		return res
	}
	state[fn.Blocks[0]] = map[string]alt{"": {}}
	canon := cjCanon(fn)
	for changed := true; changed; {
		changed = false
		for _, b := range fn.Blocks[1:] {
			in := map[string]alt{}
			for _, p := range b.Preds {
				for si, s := range p.Succs {
					if s != b {
						continue
					}
					ef := cjEdgeFacts(p, si, sizeOf, canon)
					for _, a := range state[p] {
						f := alt{}
						for k, v := range a {
							f[k] = v
						}
						feasible := true
						for k, v := range ef {
							if old, has := f[k]; has && old != v {
								feasible = false
							}
							f[k] = v
						}
						if feasible {
							in[key(f)] = f
						}
					}
				}
			}
			if len(in) > cjMaxAlt {
				var common alt
				for _, a := range in {
					if common == nil {
						common = alt{}
						for k, v := range a {
							common[k] = v
						}
						continue
					}
					for k, v := range common {
						if a[k] != v {
							delete(common, k)
						}
					}
				}
				in = map[string]alt{key(common): common}
			}
			old := state[b]
			same := len(old) == len(in)
			if same {
				for k := range in {
					if _, ok := old[k]; !ok {
						same = false
					}
				}
			}
			if !same {
				// keep growth monotone: union with what was known (alternatives only accumulate)
				for k, a := range old {
					if _, ok := in[k]; !ok && len(in) <= cjMaxAlt {
						in[k] = a
					}
				}
				if len(in) != len(old) {
					state[b] = in
					changed = true
				}
			}
		}
	}
	for _, b := range fn.Blocks {
		alts := state[b]
		if len(alts) == 0 {
			res[b] = &cjNil{Dead: true}
			continue
		}
		var common alt
		for _, a := range alts {
			if common == nil {
				common = alt{}
				for k, v := range a {
					common[k] = v
				}
				continue
			}
			for k, v := range common {
				if a[k] != v {
					delete(common, k)
				}
			}
		}
		res[b] = &cjNil{Facts: common}
	}
	return res
}

// cjDerefs lists the instructions of fn that dereference pointer value v
// (field address, load, store through it, index address).
func cjDerefs(fn *ssa.Function, v ssa.Value) []ssa.Instruction {
	var out []ssa.Instruction
	canon := cjCanon(fn)
	for _, b := range fn.Blocks {
		for _, in := range b.Instrs {
			switch x := in.(type) {
			case *ssa.FieldAddr:
				if canon(x.X) == v {
					out = append(out, in)
				}
			case *ssa.UnOp:
				if x.Op == token.MUL && canon(x.X) == v {
					out = append(out, in)
				}
			case *ssa.Store:
				if canon(x.Addr) == v {
					out = append(out, in)
				}
			case *ssa.IndexAddr:
				if canon(x.X) == v {
					out = append(out, in)
				}
			}
		}
	}
	return out
}

// cjCanon maps loads of a parameter that was spilled to a heap cell (because a
// closure captures it) back to the parameter: `t0 = new T (p); *t0 = p; … t6 = *t0`
// ⇒ canon(t6) == p, provided the cell is stored exactly once in fn and never
// stored by fn's closures.
func cjCanon(fn *ssa.Function) func(ssa.Value) ssa.Value {
	cell := map[ssa.Value]ssa.Value{} // alloc -> param
	stores := map[ssa.Value]int{}
	for _, b := range fn.Blocks {
		for _, in := range b.Instrs {
			if st, ok := in.(*ssa.Store); ok {
				stores[st.Addr]++
				if p, isP := st.Val.(*ssa.Parameter); isP {
					if _, isA := st.Addr.(*ssa.Alloc); isA {
						cell[st.Addr] = p
					}
				}
			}
		}
	}
	// closures storing through a captured cell invalidate it
	var scan func(f *ssa.Function)
	scan = func(f *ssa.Function) {
		for _, a := range f.AnonFuncs {
			for _, b := range a.Blocks {
				for _, in := range b.Instrs {
					if st, ok := in.(*ssa.Store); ok {
						if fv, isFV := st.Addr.(*ssa.FreeVar); isFV {
							// find the binding
							for _, bb := range f.Blocks {
								for _, i2 := range bb.Instrs {
									if mc, ok := i2.(*ssa.MakeClosure); ok && mc.Fn == ssa.Value(a) {
										for k, v := range a.FreeVars {
											if v == fv && k < len(mc.Bindings) {
												stores[mc.Bindings[k]] += 2
											}
										}
									}
								}
							}
						}
					}
				}
			}
			scan(a)
		}
	}
	scan(fn)
	return func(v ssa.Value) ssa.Value {
		if u, ok := v.(*ssa.UnOp); ok && u.Op == token.MUL {
			if p, ok := cell[u.X]; ok && stores[u.X] == 1 {
				return p
			}
		}
		return v
	}
}

// ---------- helper-transparent resolution (robustness pass) ----------

// cjSSACallAt finds the SSA call instruction of an AST call expression inside
// sf or its nested closures.
func cjSSACallAt(sf *ssa.Function, call *ast.CallExpr) *ssa.Call {
	for _, fn := range cjWithAnon(sf) {
		for _, b := range fn.Blocks {
			for _, in := range b.Instrs {
				if c, ok := in.(*ssa.Call); ok && c.Pos() == call.Lparen {
					return c
				}
			}
		}
	}
	return nil
}

// cjLastIdx is the index of the last result of the call's callee (the verdict by Go convention).
func cjLastIdx(call *ssa.Call) int {
	return call.Common().Signature().Results().Len() - 1
}

// cjBody returns the SSA function of a statically called function that has a
// body in the loaded program, else nil.
func cjBody(call ssa.CallInstruction) *ssa.Function {
	sc := call.Common().StaticCallee()
	if sc == nil || len(sc.Blocks) == 0 {
		return nil
	}
	return sc
}

// cjDeepVerdict checks, for a deep call site of f (a library call reached
// directly or through helpers), that at every level the results are used only
// after that level's verdict (last result) tested good, or are handed on
// together with the verdict.
func cjDeepVerdict(c *engine.Ctx, p *engine.Prog, f *engine.Fn, d engine.DeepSite) (bool, string) {
	fns := append([]*engine.Fn{f}, d.Chain...)
	for i, fn := range fns {
		sf := p.SSAFunc(fn)
		if sf == nil {
			return false, "no SSA for " + fn.Name
		}
		var callExpr *ast.CallExpr
		switch {
		case i == len(fns)-1:
			callExpr = d.Inner.Call
		case i == 0:
			callExpr = d.Outer.Call
		default:
			for _, s := range fn.Calls() {
				if o, _ := s.Callee.(*types.Func); o != nil && p.FnOf(o) == fns[i+1] {
					callExpr = s.Call
				}
			}
		}
		if i == 0 {
			callExpr = d.Outer.Call
		}
		if callExpr == nil {
			return false, "call chain not resolved in " + fn.Name
		}
		sc := cjSSACallAt(sf, callExpr)
		if sc == nil {
			return false, "SSA call not found in " + fn.Name
		}
		if ok, why := cjUsesGated(sc, cjLastIdx(sc)); !ok {
			return false, "in " + fn.Name + ": " + why
		}
	}
	return true, "results used only on the good edge of the verdict at every level of the call chain"
}

// cjChainArg resolves an expression of the innermost function of a deep site
// outwards: while it is (a conversion of) a parameter of the helper it is
// replaced by the argument at the call of that helper. Returns the expression
// and the function whose variables it is written in.
func cjChainArg(f *engine.Fn, d engine.DeepSite, e ast.Expr) (ast.Expr, *engine.Fn) {
	fns := append([]*engine.Fn{f}, d.Chain...)
	cur := len(fns) - 1
	for cur > 0 {
		h := fns[cur]
		x := c48StripConv(h.Info(), e)
		obj := engine.ObjOf(h.Info(), x)
		idx := -1
		k := 0
		for _, fld := range h.Type.Params.List {
			for _, nm := range fld.Names {
				if h.Info().ObjectOf(nm) == obj && obj != nil {
					idx = k
				}
				k++
			}
		}
		if _, isIdent := ast.Unparen(x).(*ast.Ident); !isIdent || idx < 0 {
			// the receiver of a method helper
			if rv := cjRecv(h); rv != nil && obj == rv {
				if call := cjCallOf(fns[cur-1], h, d, cur-1); call != nil {
					if se, ok := ast.Unparen(call.Fun).(*ast.SelectorExpr); ok {
						e = se.X
						cur--
						continue
					}
				}
			}
			return e, h
		}
		call := cjCallOf(fns[cur-1], h, d, cur-1)
		if call == nil || idx >= len(call.Args) {
			return e, h
		}
		e = call.Args[idx]
		cur--
	}
	return e, fns[cur]
}

// cjCallOf returns the call expression in `in` (level lvl of the chain) that enters helper h.
func cjCallOf(in *engine.Fn, h *engine.Fn, d engine.DeepSite, lvl int) *ast.CallExpr {
	if lvl == 0 {
		return d.Outer.Call
	}
	for _, s := range in.Calls() {
		if o, _ := s.Callee.(*types.Func); o != nil && in.Prog.FnOf(o) == h {
			return s.Call
		}
	}
	return nil
}

// cjResolveLocal replaces an identifier that is a local variable with exactly
// one definition in f by its defining expression (repeatedly, bounded).
func cjResolveLocal(f *engine.Fn, e ast.Expr) ast.Expr {
	info := f.Info()
	for i := 0; i < 4; i++ {
		id, ok := ast.Unparen(e).(*ast.Ident)
		if !ok {
			return e
		}
		obj, ok := info.ObjectOf(id).(*types.Var)
		if !ok || obj.IsField() {
			return e
		}
		var def ast.Expr
		n := 0
		engine.InspectBody(f, func(nd ast.Node) {
			switch a := nd.(type) {
			case *ast.AssignStmt:
				for j, l := range a.Lhs {
					if lid, ok := l.(*ast.Ident); ok && info.ObjectOf(lid) == obj {
						n++
						if len(a.Lhs) == len(a.Rhs) {
							def = a.Rhs[j]
						} else {
							def = nil
						}
					}
				}
			case *ast.ValueSpec:
				for j, nm := range a.Names {
					if info.ObjectOf(nm) == obj && len(a.Values) == len(a.Names) {
						n++
						def = a.Values[j]
					}
				}
			case *ast.IncDecStmt:
				if lid, ok := a.X.(*ast.Ident); ok && info.ObjectOf(lid) == obj {
					n += 2
				}
			}
		})
		if n != 1 || def == nil {
			return e
		}
		e = def
	}
	return e
}

// cjFact is a condition known to hold (Neg: known not to hold) at a site.
type cjFact struct {
	Fn   *engine.Fn // the function whose variables E is written in
	E    ast.Expr
	Neg  bool
	Args map[types.Object]ast.Expr // for facts inside a helper: parameter -> argument expression (in Outer's terms)
}

// cjFactsAt lists the atomic facts at a site: every gate is split into its
// conjuncts (when it holds) or disjuncts (when it does not), `!x` flips the
// polarity, and a fact that is a call of an in-program bool function whose body
// is a single `return expr` is expanded into expr's conjuncts (holding case).
func cjFactsAt(f *engine.Fn, s *engine.Site) []cjFact {
	var out []cjFact
	var add func(fn *engine.Fn, e ast.Expr, holds bool, depth int)
	add = func(fn *engine.Fn, e ast.Expr, holds bool, depth int) {
		e = ast.Unparen(e)
		if u, ok := e.(*ast.UnaryExpr); ok && u.Op == token.NOT {
			add(fn, u.X, !holds, depth)
			return
		}
		if b, ok := e.(*ast.BinaryExpr); ok {
			if (b.Op == token.LAND && holds) || (b.Op == token.LOR && !holds) {
				add(fn, b.X, holds, depth)
				add(fn, b.Y, holds, depth)
				return
			}
		}
		out = append(out, cjFact{Fn: fn, E: e, Neg: !holds})
		if call, ok := e.(*ast.CallExpr); ok && holds && depth < 2 {
			if st := fn.SiteOf(call); st != nil {
				if o, _ := st.Callee.(*types.Func); o != nil {
					if h := fn.Prog.FnOf(o); h != nil && len(h.Body.List) == 1 {
						if r, ok := h.Body.List[0].(*ast.ReturnStmt); ok && len(r.Results) == 1 {
							add(h, r.Results[0], true, depth+1)
						}
					}
				}
			}
		}
	}
	for _, gt := range f.Graph().Gates(s) {
		add(f, gt.Full(), gt.OnTrue, 0)
	}
	return out
}

// cjCmpFact normalises a comparison fact to "x op y holds": returns ok=false
// when the fact is not a comparison.
func cjCmpFact(ft cjFact) (x ast.Expr, op token.Token, y ast.Expr, ok bool) {
	b, isB := ast.Unparen(ft.E).(*ast.BinaryExpr)
	if !isB {
		return nil, 0, nil, false
	}
	op = b.Op
	switch op {
	case token.LSS, token.LEQ, token.GTR, token.GEQ, token.EQL, token.NEQ:
	default:
		return nil, 0, nil, false
	}
	if ft.Neg {
		op = engine.Negate(op)
	}
	return b.X, op, b.Y, true
}

// cjEqualityGates: target is reached only when x equals a value satisfying
// isOther. Recognised: a direct `x == o` / `x != o` test whose equal edge
// dominates target; or a call H(…x…o…) of an in-program function whose verdict
// (last result: nil error / true) gates target and whose every good return is
// itself reached only when the two corresponding parameters are equal.
func cjEqualityGates(sf *ssa.Function, x ssa.Value, isOther func(ssa.Value) bool, target *ssa.BasicBlock, depth int) bool {
	if x == nil || x.Referrers() == nil {
		return false
	}
	for _, r := range *x.Referrers() {
		switch in := r.(type) {
		case *ssa.BinOp:
			if in.Op != token.NEQ && in.Op != token.EQL {
				continue
			}
			other := in.Y
			if in.Y == x {
				other = in.X
			}
			if !isOther(other) {
				continue
			}
			good := 1
			if in.Op == token.EQL {
				good = 0
			}
			for _, rr := range *in.Referrers() {
				if i, isIf := rr.(*ssa.If); isIf && cjEdgeDominates(i.Block(), good, target) {
					return true
				}
			}
		case *ssa.Call:
			h := cjBody(in)
			if h == nil || depth <= 0 {
				continue
			}
			verdict := cjResult(in, cjLastIdx(in))
			if verdict == nil || !cjGated(verdict, target) {
				continue
			}
			for i, a := range in.Call.Args {
				if a != x {
					continue
				}
				for j, o := range in.Call.Args {
					if j == i || !isOther(o) || i >= len(h.Params) || j >= len(h.Params) {
						continue
					}
					pj := h.Params[j]
					good := 0
					all := true
					for _, b := range h.Blocks {
						ret, ok := b.Instrs[len(b.Instrs)-1].(*ssa.Return)
						if !ok || len(ret.Results) == 0 {
							continue
						}
						last := ret.Results[len(ret.Results)-1]
						isGood := false
						if types.IsInterface(last.Type()) {
							isGood = cjIsNilConst(last)
						} else if k, ok := last.(*ssa.Const); ok && k.Value != nil && k.Value.Kind() == constant.Bool {
							isGood = constant.BoolVal(k.Value)
						} else {
							all = false // verdict computed, not a constant: cannot classify
						}
						if !isGood {
							continue
						}
						good++
						if !cjEqualityGates(h, h.Params[i], func(v ssa.Value) bool { return v == ssa.Value(pj) }, b, depth-1) {
							all = false
						}
					}
					if good > 0 && all {
						return true
					}
				}
			}
		}
	}
	return false
}

// ---------- symbolic terms over SSA values (helper-transparent) ----------

// cjSymbolic renders SSA values as terms. Calls of functions of the root
// function's own package that have a single (success) return are entered, so a
// value computed in a private helper renders like the inlined expression.
// Every non-entered call carries an identity tag "@n" (same instruction ⇒ same
// tag) so that two different CRandBytes(16) calls are different terms.
type cjSymbolic struct {
	pkg *ssa.Package
	ids map[ssa.Value]int
}

func cjNewSym(root *ssa.Function) *cjSymbolic {
	return &cjSymbolic{pkg: root.Pkg, ids: map[ssa.Value]int{}}
}

func (s *cjSymbolic) id(v ssa.Value) int {
	if n, ok := s.ids[v]; ok {
		return n
	}
	s.ids[v] = len(s.ids) + 1
	return s.ids[v]
}

// successResult returns result #idx of callee's only success return (the only
// return, or the only one whose trailing error result is nil).
func cjSuccessResult(callee *ssa.Function, idx int) ssa.Value {
	var rets, good []*ssa.Return
	for _, b := range callee.Blocks {
		if r, ok := b.Instrs[len(b.Instrs)-1].(*ssa.Return); ok {
			rets = append(rets, r)
			if n := len(r.Results); n > 0 && types.IsInterface(r.Results[n-1].Type()) && cjIsNilConst(r.Results[n-1]) {
				good = append(good, r)
			}
		}
	}
	pick := rets
	if len(rets) != 1 {
		pick = good
	}
	if len(pick) != 1 || idx >= len(pick[0].Results) {
		return nil
	}
	return pick[0].Results[idx]
}

func (s *cjSymbolic) Term(v ssa.Value, env map[ssa.Value]string, depth int) string {
	if t, ok := env[v]; ok {
		return t
	}
	switch x := v.(type) {
	case nil:
		return "<nil>"
	case *ssa.Const:
		if x.Value == nil {
			return "nil"
		}
		return x.Value.ExactString()
	case *ssa.Parameter:
		for k, p := range x.Parent().Params {
			if p == x {
				return fmt.Sprintf("param#%d", k)
			}
		}
	case *ssa.FreeVar:
		return "free:" + x.Name()
	case *ssa.ChangeType:
		return s.Term(x.X, env, depth)
	case *ssa.MakeInterface:
		return s.Term(x.X, env, depth)
	case *ssa.Convert:
		return "conv:" + x.Type().String() + "(" + s.Term(x.X, env, depth) + ")"
	case *ssa.BinOp:
		return "(" + s.Term(x.X, env, depth) + " " + x.Op.String() + " " + s.Term(x.Y, env, depth) + ")"
	case *ssa.UnOp:
		return x.Op.String() + s.Term(x.X, env, depth)
	case *ssa.Slice:
		f := func(v ssa.Value) string {
			if v == nil {
				return ""
			}
			return s.Term(v, env, depth)
		}
		return s.Term(x.X, env, depth) + "[" + f(x.Low) + ":" + f(x.High) + "]"
	case *ssa.Extract:
		if call, ok := x.Tuple.(*ssa.Call); ok {
			if t, ok := s.enter(call, x.Index, env, depth); ok {
				return t
			}
		}
		return s.Term(x.Tuple, env, depth) + "#" + fmt.Sprint(x.Index)
	case *ssa.Call:
		if x.Common().Signature().Results().Len() == 1 {
			if t, ok := s.enter(x, 0, env, depth); ok {
				return t
			}
		}
		var args []string
		for _, a := range x.Call.Args {
			args = append(args, s.Term(a, env, depth))
		}
		name := cjCalleeName(x)
		if name == "" {
			name = "dyn"
		}
		return fmt.Sprintf("%s(%s)@%d", name, strings.Join(args, ", "), s.id(x))
	}
	return fmt.Sprintf("?%T@%d", v, s.id(v))
}

func (s *cjSymbolic) enter(call *ssa.Call, idx int, env map[ssa.Value]string, depth int) (string, bool) {
	h := cjBody(call)
	if h == nil || depth <= 0 || h.Pkg != s.pkg {
		return "", false
	}
	res := cjSuccessResult(h, idx)
	if res == nil {
		return "", false
	}
	env2 := map[ssa.Value]string{}
	for k, p := range h.Params {
		if k < len(call.Call.Args) {
			env2[p] = s.Term(call.Call.Args[k], env, depth)
		}
	}
	return s.Term(res, env2, depth-1), true
}
