package checks

import (
	"go/ast"
	"go/types"

	"gnoverif/engine"
)

// C07 extra — the readonly verdict looks at the owning object of EVERY dynamic
// form of a value. TypedValue.IsReadonlyBy decides from the object id (`tvoid`)
// of the value's first object; a value kind for which some dynamic form leaves
// that id unset falls through to "tvoid is zero ⇒ writable". A persisted slice
// whose Base is still a lazily-loaded RefValue is such a form: if only an
// *ArrayValue base is inspected, a foreign slice is reported writable until it is
// first dereferenced, and a type-pun conversion (which consults only this
// verdict) launders it. Rule: on every path from IsReadonlyBy's entry to the
// `tvoid.IsZero()` test the id has been assigned — a case of the value switch
// either assigns it unconditionally, returns, or panics; and the SliceValue /
// PointerValue cases take it from the base through the ObjectIDer interface
// (all object forms), not through an assertion to one concrete type.
// (Added after an independently seeded second-round change asserted
// `cv.Base.(*ArrayValue)` "to tolerate a nil base".)
func init() {
	extend("C07", c07Readonly)
	mutants("C07",
		Mutant{"readonly-slice-base-array-only", "gnovm/pkg/gnolang/ownership.go", "	case *SliceValue:\n\t\ttvoid = cv.Base.(ObjectIDer).GetObjectID()", "	case *SliceValue:\n\t\tif base, ok := cv.Base.(*ArrayValue); ok {\n\t\t\ttvoid = base.GetObjectID()\n\t\t}", "readonly-id-total"},
	)
	metaExtra("C07", "readonly-id-total: every path of IsReadonlyBy to its `tvoid.IsZero()` test assigns the first-object id (no dynamic form of a value kind is skipped)")
}

func c07Readonly(c *engine.Ctx) {
	p := progWith(c, "gnovm/pkg/gnolang")
	if p == nil {
		return
	}
	f := c.MustFunc("gnovm/pkg/gnolang.(*TypedValue).IsReadonlyBy")
	if f == nil {
		return
	}
	info := f.Info()
	g := f.Graph()
	// the id variable: receiver of the IsZero() test
	var idObj types.Object
	var test *engine.Site
	for _, s := range f.Calls() {
		sel, ok := s.Call.Fun.(*ast.SelectorExpr)
		if !ok || sel.Sel.Name != "IsZero" {
			continue
		}
		if o := engine.ObjOf(info, sel.X); o != nil {
			if n, ok := o.Type().(*types.Named); ok && n.Obj().Name() == "ObjectID" {
				idObj, test = o, s
			}
		}
	}
	if idObj == nil {
		c.Undecided("readonly-id-total", f.Name, "could not find the `<ObjectID>.IsZero()` test that turns an unset id into 'writable'")
		return
	}
	var assigns []*engine.Site
	engine.InspectBody(f, func(n ast.Node) {
		as, ok := n.(*ast.AssignStmt)
		if !ok {
			return
		}
		for _, l := range as.Lhs {
			if engine.ObjOf(info, l) == idObj {
				if s := f.SiteOf(as); s != nil {
					assigns = append(assigns, s)
				}
			}
		}
	})
	c.Floor("readonly-id-total assignments", len(assigns), 8)
	ok := len(assigns) > 0 && g.MustPass(test, assigns)
	c.Check("readonly-id-total", f.Name+" id assigned on every path to the IsZero test", test.Pos(), ok,
		"some path through the value switch reaches `"+idObj.Name()+".IsZero()` without assigning the first-object id: that dynamic form of the value is treated as unowned, i.e. writable by any realm")
}
