package checks

import (
	"go/ast"
	"go/types"

	"gnoverif/engine"
)

// C03 extra — the lazy-load barrier is unconditional. Elements of persisted
// containers are stored as references and become real values only through
// fillValueTV, which dispatches on the element's dynamic kind itself (RefValue,
// PointerValue with an unloaded base, HeapItemValue). A call site that applies
// the barrier only for some dynamic kinds skips the others (a reloaded pointer
// element then behaves differently from an in-memory one), and a site that
// drops it reads an unloaded reference. Rules: (a) no fillValueTV call is
// gated by a dynamic-type test on the element it fills; (b) the functions that
// read container elements through the barrier today still do, at least as many
// times. (Added after an independently seeded change made ComputeMapKey fill
// only RefValue elements.)
func init() {
	extend("C03", c03LoadBarrier)
	mutants("C03",
		Mutant{"barrier-only-for-refs", "gnovm/pkg/gnolang/values.go", "				ev := fillValueTV(store, &av.List[i])\n", "				ev := &av.List[i]\n\t\t\t\tif _, isRef := ev.V.(RefValue); isRef {\n\t\t\t\t\tfillValueTV(store, ev)\n\t\t\t\t}\n", "load-barrier"},
		Mutant{"barrier-dropped-struct-field", "gnovm/pkg/gnolang/values.go", "			fv := fillValueTV(store, &sv.Fields[i])\n", "			fv := &sv.Fields[i]\n", "load-barrier"},
	)
}

// today's barrier sites per function (confirmed by reading): function → minimum number of fillValueTV calls.
var c03BarrierFloor = map[string]int{
	"gnovm/pkg/gnolang.(*TypedValue).ComputeMapKey":      2, // array elements, struct fields
	"gnovm/pkg/gnolang.(*ArrayValue).GetElementPointer":     1,
	"gnovm/pkg/gnolang.(*StructValue).GetPointerToInt":   1,
	"gnovm/pkg/gnolang.(*StructValue).GetSubrefPointerTo": 1,
	"gnovm/pkg/gnolang.(*Block).GetPointerToInt":         1,
	"gnovm/pkg/gnolang.(*Block).GetPointerToIntDirect":   1,
	"gnovm/pkg/gnolang.(*MapValue).GetValueForKey":       1,
}

func c03LoadBarrier(c *engine.Ctx) {
	p := progWith(c, "gnovm/pkg/gnolang")
	if p == nil {
		return
	}
	const B = "gnovm/pkg/gnolang.fillValueTV"
	counts := map[string]int{}
	total := 0
	for _, f := range p.FuncsIn("gnovm/pkg/gnolang") {
		if f.Root().Name == B {
			continue
		}
		info := f.Info()
		for _, s := range f.CallsTo(B) {
			total++
			counts[f.Root().Name]++
			if len(s.Call.Args) != 2 {
				continue
			}
			// the filled element, as an expression root
			arg := ast.Unparen(s.Call.Args[1])
			if u, ok := arg.(*ast.UnaryExpr); ok {
				arg = ast.Unparen(u.X)
			}
			argObj := engine.ObjOf(info, arg)
			argStr := engine.ExprString(arg)
			bad := ""
			for _, gt := range f.Graph().Gates(s) {
				// condition variables defined by a comma-ok type assertion on <elem>.V, or the assertion itself
				ast.Inspect(gt.Cond, func(n ast.Node) bool {
					if id, ok := n.(*ast.Ident); ok {
						if def := commaOKAssertOn(f, info.ObjectOf(id)); def != nil && mentionsElem(info, def, argObj, argStr) {
							bad = engine.ExprString(gt.Cond)
						}
					}
					if ta, ok := n.(*ast.TypeAssertExpr); ok && mentionsElem(info, ta.X, argObj, argStr) {
						bad = engine.ExprString(gt.Cond)
					}
					return true
				})
			}
			// inside a type-switch clause on <elem>.V
			engine.InspectBody(f, func(n ast.Node) {
				ts, ok := n.(*ast.TypeSwitchStmt)
				if !ok || !(ts.Body.Pos() <= s.Pos() && s.Pos() < ts.Body.End()) {
					return
				}
				var x ast.Expr
				switch a := ts.Assign.(type) {
				case *ast.AssignStmt:
					if ta, ok := a.Rhs[0].(*ast.TypeAssertExpr); ok {
						x = ta.X
					}
				case *ast.ExprStmt:
					if ta, ok := a.X.(*ast.TypeAssertExpr); ok {
						x = ta.X
					}
				}
				if x != nil && mentionsElem(info, x, argObj, argStr) {
					bad = "type switch on " + engine.ExprString(x)
				}
			})
			c.Check("load-barrier", f.Root().Name+" fillValueTV("+argStr+") unconditional on the element's kind", s.Pos(), bad == "",
				"fillValueTV dispatches on the element's dynamic kind itself; gating the call by `"+bad+"` skips the other kinds (e.g. pointer elements with an unloaded base)")
		}
	}
	c.Floor("load-barrier", total, 12)
	for fn, min := range c03BarrierFloor {
		if p.Func(fn) == nil {
			c.Undecided("load-barrier", fn, "function that applies the load barrier today was not found")
			continue
		}
		c.Check("load-barrier", fn+" keeps its barrier sites", p.Func(fn).Pos(), counts[fn] >= min,
			"this element accessor read container elements through fillValueTV on the reviewed tree; it has fewer barrier calls now")
	}
}

func mentionsElem(info *types.Info, e ast.Node, obj types.Object, str string) bool {
	if obj != nil && engine.Mentions(info, e, obj) {
		return true
	}
	found := false
	ast.Inspect(e, func(n ast.Node) bool {
		if x, ok := n.(ast.Expr); ok && engine.ExprString(x) == str {
			found = true
		}
		return !found
	})
	return found
}

// commaOKAssertOn returns the asserted expression X when obj is the ok (or value)
// variable of `v, ok := X.(T)`.
func commaOKAssertOn(f *engine.Fn, obj types.Object) ast.Expr {
	if obj == nil {
		return nil
	}
	var out ast.Expr
	ast.Inspect(f.Body, func(n ast.Node) bool {
		as, ok := n.(*ast.AssignStmt)
		if !ok || len(as.Rhs) != 1 {
			return true
		}
		ta, ok := ast.Unparen(as.Rhs[0]).(*ast.TypeAssertExpr)
		if !ok {
			return true
		}
		for _, l := range as.Lhs {
			if engine.ObjOf(f.Info(), l) == obj {
				out = ta.X
			}
		}
		return true
	})
	return out
}
