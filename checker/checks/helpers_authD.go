package checks

import (
	"go/ast"
	"go/constant"
	"go/token"
	"go/types"
	"strings"

	"gnoverif/engine"
)

// Helpers of the authD checks (C15, C17, C18, C19, C44). All names carry the
// authd prefix.

// authdOkPolarity: +1 when cond is exactly the identifier obj, -1 when it is
// exactly !obj, 0 otherwise (including any compound condition).
func authdOkPolarity(info *types.Info, cond ast.Expr, obj types.Object) int {
	e := ast.Unparen(cond)
	if u, ok := e.(*ast.UnaryExpr); ok && u.Op == token.NOT {
		if id, ok := ast.Unparen(u.X).(*ast.Ident); ok && info.ObjectOf(id) == obj && obj != nil {
			return -1
		}
		return 0
	}
	if id, ok := e.(*ast.Ident); ok && info.ObjectOf(id) == obj && obj != nil {
		return +1
	}
	return 0
}

// authdLhsObjs returns the objects bound by the statement that contains a call
// (x, y := call(...) / var x, y = call(...)), nil when the call is not the sole RHS.
func authdLhsObjs(f *engine.Fn, s *engine.Site) []types.Object {
	info := f.Info()
	switch st := s.Top.(type) {
	case *ast.AssignStmt:
		if len(st.Rhs) != 1 || ast.Unparen(st.Rhs[0]) != ast.Expr(s.Call) {
			return nil
		}
		var out []types.Object
		for _, l := range st.Lhs {
			if id, ok := l.(*ast.Ident); ok {
				out = append(out, info.ObjectOf(id))
			} else {
				out = append(out, nil)
			}
		}
		return out
	case *ast.ValueSpec:
		if len(st.Values) != 1 || ast.Unparen(st.Values[0]) != ast.Expr(s.Call) {
			return nil
		}
		var out []types.Object
		for _, id := range st.Names {
			out = append(out, info.ObjectOf(id))
		}
		return out
	}
	return nil
}

// authdReturns lists the return statements of f (not of nested literals).
func authdReturns(f *engine.Fn) []*ast.ReturnStmt {
	var out []*ast.ReturnStmt
	engine.InspectBody(f, func(n ast.Node) {
		if r, ok := n.(*ast.ReturnStmt); ok {
			out = append(out, r)
		}
	})
	return out
}

// authdConstInt reports the integer value of a constant expression.
func authdConstInt(info *types.Info, e ast.Expr) (int64, bool) {
	tv, ok := info.Types[e]
	if !ok || tv.Value == nil {
		return 0, false
	}
	v := constant.ToInt(tv.Value)
	if v.Kind() != constant.Int {
		return 0, false
	}
	return constant.Int64Val(v)
}

// authdIsBoolLit reports whether e is the predeclared true/false and its value.
func authdIsBoolLit(info *types.Info, e ast.Expr) (val, ok bool) {
	id, isID := ast.Unparen(e).(*ast.Ident)
	if !isID {
		return false, false
	}
	c, isC := info.ObjectOf(id).(*types.Const)
	if !isC || c.Pkg() != nil {
		return false, false
	}
	switch c.Name() {
	case "true":
		return true, true
	case "false":
		return false, true
	}
	return false, false
}

// authdHolds returns the atomic conditions known to hold when the target of
// the gate is reached: conjuncts of the condition on a true-gate, negated
// disjuncts on a false-gate. neg tells, per atom, whether the atom is known
// FALSE (true) or known TRUE (false).
type authdFact struct {
	E   ast.Expr
	Neg bool // the expression is known to be false
}

func authdFacts(gt engine.Gate) []authdFact {
	var out []authdFact
	if gt.OnTrue {
		for _, a := range engine.Conjuncts(gt.Full(), token.LAND) {
			out = append(out, authdStripNot(a, false))
		}
	} else {
		for _, a := range engine.Conjuncts(gt.Full(), token.LOR) {
			out = append(out, authdStripNot(a, true))
		}
	}
	return out
}

func authdStripNot(e ast.Expr, neg bool) authdFact {
	e = ast.Unparen(e)
	for {
		u, ok := e.(*ast.UnaryExpr)
		if !ok || u.Op != token.NOT {
			break
		}
		neg = !neg
		e = ast.Unparen(u.X)
	}
	return authdFact{E: e, Neg: neg}
}

// authdCmp normalises a fact that is a binary comparison into (x op y) that is
// known to hold. ok=false when the fact is not a comparison.
func authdCmp(fc authdFact) (x ast.Expr, op token.Token, y ast.Expr, ok bool) {
	b, isB := ast.Unparen(fc.E).(*ast.BinaryExpr)
	if !isB {
		return nil, 0, nil, false
	}
	op = b.Op
	switch op {
	case token.LSS, token.LEQ, token.GTR, token.GEQ, token.EQL, token.NEQ:
	default:
		return nil, 0, nil, false
	}
	if fc.Neg {
		op = engine.Negate(op)
	}
	return ast.Unparen(b.X), op, ast.Unparen(b.Y), true
}

func authdSameExpr(a, b ast.Expr) bool {
	return types.ExprString(ast.Unparen(a)) == types.ExprString(ast.Unparen(b))
}

// authdCalleeIs reports whether e is a call whose resolved callee matches.
func authdCalleeIs(info *types.Info, e ast.Expr, pats ...string) (*ast.CallExpr, bool) {
	c, ok := ast.Unparen(e).(*ast.CallExpr)
	if !ok {
		return nil, false
	}
	return c, engine.MatchName(authdCalleeName(info, c), pats...)
}

func authdCalleeName(info *types.Info, c *ast.CallExpr) string {
	var id *ast.Ident
	switch f := ast.Unparen(c.Fun).(type) {
	case *ast.Ident:
		id = f
	case *ast.SelectorExpr:
		id = f.Sel
	case *ast.IndexExpr:
		switch g := ast.Unparen(f.X).(type) {
		case *ast.Ident:
			id = g
		case *ast.SelectorExpr:
			id = g.Sel
		}
	}
	if id == nil {
		return ""
	}
	switch o := info.ObjectOf(id).(type) {
	case *types.Func:
		return engine.FuncName(o)
	case *types.Builtin:
		return "builtin." + o.Name()
	}
	return ""
}

// authdAssignsTo collects every RHS expression assigned (or declared) to obj in f,
// not descending into nested literals. Compound assignments are reported as nil entries.
func authdAssignsTo(f *engine.Fn, obj types.Object) []ast.Expr {
	info := f.Info()
	var out []ast.Expr
	engine.InspectBody(f, func(n ast.Node) {
		switch st := n.(type) {
		case *ast.AssignStmt:
			for i, l := range st.Lhs {
				id, ok := ast.Unparen(l).(*ast.Ident)
				if !ok || info.ObjectOf(id) != obj {
					continue
				}
				if st.Tok != token.ASSIGN && st.Tok != token.DEFINE {
					out = append(out, nil)
					continue
				}
				if len(st.Rhs) == len(st.Lhs) {
					out = append(out, st.Rhs[i])
				} else {
					out = append(out, st.Rhs[0])
				}
			}
		case *ast.ValueSpec:
			for i, id := range st.Names {
				if info.ObjectOf(id) != obj {
					continue
				}
				if len(st.Values) == len(st.Names) {
					out = append(out, st.Values[i])
				} else if len(st.Values) == 1 {
					out = append(out, st.Values[0])
				}
				// no initialiser: zero value, nothing to report
			}
		case *ast.IncDecStmt:
			if id, ok := ast.Unparen(st.X).(*ast.Ident); ok && info.ObjectOf(id) == obj {
				out = append(out, nil)
			}
		case *ast.RangeStmt:
			for _, l := range []ast.Expr{st.Key, st.Value} {
				if id, ok := l.(*ast.Ident); ok && info.ObjectOf(id) == obj {
					out = append(out, nil)
				}
			}
		}
	})
	return out
}

func authdShort(name string) string {
	if i := strings.LastIndexByte(name, '/'); i >= 0 {
		return name[i+1:]
	}
	return name
}

// authdFieldOf reports whether e is a selector resolving to a struct field
// with the given name declared in a struct of the named type "pkg.Type".
func authdIsField(info *types.Info, e ast.Expr, field *types.Var) bool {
	se, ok := ast.Unparen(e).(*ast.SelectorExpr)
	if !ok || field == nil {
		return false
	}
	v, ok := info.ObjectOf(se.Sel).(*types.Var)
	return ok && v.Origin() == field.Origin()
}

// authdMentionsField reports whether any selector inside e resolves to field.
func authdMentionsField(info *types.Info, e ast.Node, field *types.Var) bool {
	found := false
	if e == nil {
		return false
	}
	ast.Inspect(e, func(n ast.Node) bool {
		if x, ok := n.(ast.Expr); ok && authdIsField(info, x, field) {
			found = true
		}
		return !found
	})
	return found
}

// authdEnclosingFacts returns the conditions known to hold at target from the
// if-statements of root that enclose it (then-branch: the condition's
// conjuncts hold; else-branch: its disjuncts fail). Purely syntactic; used for
// statements go/cfg does not keep as nodes (continue, break).
func authdEnclosingFacts(root ast.Node, target ast.Node) []authdFact {
	var out []authdFact
	var walk func(n ast.Node) bool
	walk = func(n ast.Node) bool {
		if n == nil || !(n.Pos() <= target.Pos() && target.End() <= n.End()) {
			return false
		}
		if is, ok := n.(*ast.IfStmt); ok {
			switch {
			case containsExpr(is.Body, target):
				out = append(out, authdFacts(engine.Gate{Cond: is.Cond, OnTrue: true})...)
			case is.Else != nil && containsExpr(is.Else, target):
				out = append(out, authdFacts(engine.Gate{Cond: is.Cond, OnTrue: false})...)
			}
		}
		return true
	}
	ast.Inspect(root, func(n ast.Node) bool {
		if n == nil {
			return false
		}
		return walk(n)
	})
	return out
}

// authdStmtSite locates a statement in the CFG; compound statements are
// represented by their first evaluated part.
func authdStmtSite(f *engine.Fn, st ast.Stmt) *engine.Site {
	if s := f.SiteOf(st); s != nil {
		return s
	}
	switch x := st.(type) {
	case *ast.IfStmt:
		if x.Init != nil {
			if s := authdStmtSite(f, x.Init); s != nil {
				return s
			}
		}
		return f.SiteOf(x.Cond)
	case *ast.ExprStmt:
		return f.SiteOf(x.X)
	case *ast.BlockStmt:
		if len(x.List) > 0 {
			return authdStmtSite(f, x.List[0])
		}
	case *ast.RangeStmt:
		return f.SiteOf(x.X)
	case *ast.SwitchStmt:
		if x.Tag != nil {
			return f.SiteOf(x.Tag)
		}
	}
	return nil
}

// authdResolveLocal replaces an identifier that names a single-definition local
// of f by its defining expression (one step; hoisting / local aliases).
func authdResolveLocal(f *engine.Fn, e ast.Expr) ast.Expr {
	id, ok := ast.Unparen(e).(*ast.Ident)
	if !ok {
		return e
	}
	o, isVar := f.Info().ObjectOf(id).(*types.Var)
	if !isVar || o.IsField() {
		return e
	}
	for _, q := range authdOperands(f.Root()) {
		if q == types.Object(o) {
			return e
		}
	}
	if d := authdAssignsTo(f, o); len(d) == 1 && d[0] != nil {
		return d[0]
	}
	return e
}

// authdFactImplied: does the fact fc (holding in f) establish `want`, either
// itself or because it is a call of a package-local boolean predicate known to
// be true all of whose true-returns establish it (helpers followed up to depth)?
// want receives the function the fact lives in.
func authdFactImplied(f *engine.Fn, fc authdFact, want func(fn *engine.Fn, fc authdFact) bool, depth int) bool {
	if want(f, fc) {
		return true
	}
	if fc.Neg || depth <= 0 {
		return false
	}
	call, ok := ast.Unparen(fc.E).(*ast.CallExpr)
	if !ok {
		return false
	}
	st := f.SiteOf(call)
	if st == nil {
		return false
	}
	fn, _ := st.Callee.(*types.Func)
	h := f.Prog.FnOf(fn)
	if h == nil || h == f {
		return false
	}
	rets := authdReturns(h)
	nTrue := 0
	for _, rs := range rets {
		if len(rs.Results) != 1 {
			return false
		}
		bv, isLit := authdIsBoolLit(h.Info(), rs.Results[0])
		if isLit && !bv {
			continue
		}
		nTrue++
		var facts []authdFact
		if rst := h.SiteOf(rs); rst != nil {
			for _, gt := range h.Graph().Gates(rst) {
				facts = append(facts, authdFacts(gt)...)
			}
		}
		if !isLit {
			for _, cj := range engine.Conjuncts(rs.Results[0], token.LAND) {
				facts = append(facts, authdStripNot(cj, false))
			}
		}
		found := false
		for _, hf := range facts {
			if authdFactImplied(h, hf, want, depth-1) {
				found = true
			}
		}
		if !found {
			return false
		}
	}
	return nTrue > 0
}
