package checks

import (
	"fmt"
	"go/ast"
	"go/token"
	"go/types"
	"strings"
	"time"

	"gnoverif/engine"
)

// C04 — the VM's operator tables are complete and internally consistent.
func init() {
	register("C04", c04)
	meta("C04", Meta{
		Text:      "Decides, for every member of the operator families of the VM (binary arithmetic/bitwise/shift *Assign functions, the five comparison functions, unary - and ^, ++/--) and for every integer×integer pair of ConvertTo: each required operand type has a case (exhaustiveness over the primitive kinds, sibling functions compared through one table); inside the case for width W only the W-wide accessors are used; the Go operator (resp. math/big method, bigdec helper) applied is the function's designated one with operands (left,right); every integer / and % is behind a `right == 0` test that returns the division-by-zero exception and every caller raises it; every shift is behind the negative-count test; the token→Word→Op→handler→family-function chain maps each operator to the handler of the same name. Level 'other': necessary structural conditions of Go-equivalence of operators, not program equivalence.",
		Note:      "Not covered: preprocessing/type checking, constant folding beyond its use of the same handlers, control flow, builtins and aliasing, string/rune conversion values, the arithmetic of Go itself (trusted). Known finding: doOpUneg/doOpUxor have no UntypedRuneType case (`const c = -'a'` panics in preprocessing; Go yields -97).",
		Technique: "R-EXH / R-SIB over switch case sets (go/types constants), typed AST matching inside case clauses, go/cfg gates for the zero-divisor and negative-shift guards, name-agreement tables over resolved constants",
		Ref:       "DESIGN.md §2 C04",
	})
	const ob = "gnovm/pkg/gnolang/op_binary.go"
	mutants("C04",
		Mutant{"wrong-width-accessor", ob, "lv.SetInt16(lv.GetInt16() - rv.GetInt16())", "lv.SetInt16(lv.GetInt16() - int16(rv.GetInt8()))", "accessor-width subAssign Int16Type"},
		Mutant{"wrong-operator", ob, "lv.SetUint32(lv.GetUint32() | rv.GetUint32())", "lv.SetUint32(lv.GetUint32() ^ rv.GetUint32())", "operator borAssign Uint32Type"},
		Mutant{"swapped-operands", ob, "lv.SetInt64(lv.GetInt64() - rv.GetInt64())", "lv.SetInt64(rv.GetInt64() - lv.GetInt64())", "operator subAssign Int64Type"},
		Mutant{"dropped-case", ob, "\tcase Uint16Type:\n\t\tlv.SetUint16(lv.GetUint16() &^ rv.GetUint16())\n", "", "kind-coverage bandnAssign Uint16Type"},
		Mutant{"zero-guard-weakened", ob, "if rv.GetInt8() == 0 {\n\t\t\treturn expt\n\t\t}\n\t\tlv.SetInt8(lv.GetInt8() % rv.GetInt8())", "if rv.GetInt8() == 0 && lv.GetInt8() != 0 {\n\t\t\treturn expt\n\t\t}\n\t\tlv.SetInt8(lv.GetInt8() % rv.GetInt8())", "div-zero-guard remAssign Int8Type"},
		Mutant{"zero-guard-returns-nil", ob, "if rv.GetUint64() == 0 {\n\t\t\treturn expt\n\t\t}\n\t\tlv.SetUint64(lv.GetUint64() / rv.GetUint64())", "if rv.GetUint64() == 0 {\n\t\t\treturn nil\n\t\t}\n\t\tlv.SetUint64(lv.GetUint64() / rv.GetUint64())", "div-zero-guard quoAssign Uint64Type"},
		Mutant{"cmp-operator", ob, "return (lv.GetUint8() >= rv.GetUint8())", "return (lv.GetUint8() > rv.GetUint8())", "operator isGeq Uint8Kind"},
		Mutant{"bigint-method", ob, "lb = big.NewInt(0).AndNot(lb, rv.GetBigInt())", "lb = big.NewInt(0).And(lb, rv.GetBigInt())", "operator bandnAssign UntypedBigintType"},
		Mutant{"neg-shift-check-dropped", ob, "func shrAssign(m *Machine, lv, rv *TypedValue) {\n\tif rv.Sign() < 0 {", "func shrAssign(m *Machine, lv, rv *TypedValue) {\n\tif rv.Sign() < 0 && m.Stage == StagePre {", "neg-shift-guard shrAssign"},
		Mutant{"handler-crossed", "gnovm/pkg/gnolang/op_assign.go", "// lv &^= rv\n\tbandnAssign(lv.TV, rv)", "// lv &^= rv\n\tbandAssign(lv.TV, rv)", "handler-family doOpBandnAssign"},
		Mutant{"word-op-crossed", "gnovm/pkg/gnolang/misc.go", "case LEQ:\n\t\treturn OpLeq", "case LEQ:\n\t\treturn OpLss", "word-op word2BinaryOp LEQ"},
		Mutant{"conv-wrong-source", "gnovm/pkg/gnolang/values_conversions.go", "x := int16(tv.GetInt8())", "x := int16(uint8(tv.GetInt8()))", "int-conv Int8Kind>Int16Kind"},
		Mutant{"caller-ignores-exception", "gnovm/pkg/gnolang/op_assign.go", "err := remAssign(lv.TV, rv)\n\tif err != nil {\n\t\tpanic(err)\n\t}", "err := remAssign(lv.TV, rv)\n\tif err != nil && debug {\n\t\tpanic(err)\n\t}", "div-zero-raised"},
	)
}

var c04Ints = []string{"Int", "Int8", "Int16", "Int32", "Int64", "Uint", "Uint8", "Uint16", "Uint32", "Uint64"}

// accessor suffix by case constant (Type value or Kind).
func c04Acc(cname string) string {
	base := strings.TrimSuffix(strings.TrimSuffix(cname, "Type"), "Kind")
	switch base {
	case "UntypedRune":
		return "Int32"
	case "UntypedBigint", "Bigint":
		return "BigInt"
	case "UntypedBigdec", "Bigdec":
		return "BigDec"
	case "UntypedString":
		return "String"
	case "UntypedBool":
		return "Bool"
	}
	return base // Int…Uint64, Float32, Float64, String, Bool, DataByte
}

// accessors with the identical Go type and storage (int and uint are 64-bit in Gno).
var c04SameRepr = map[string]string{"Int": "Int64", "Int64": "Int", "Uint": "Uint64", "Uint64": "Uint"}

func c04SameAcc(a, b string) bool { return a == b || c04SameRepr[a] == b }

var c04AccNames = func() map[string]bool {
	m := map[string]bool{}
	for _, a := range append(append([]string{}, c04Ints...), "Float32", "Float64", "String", "Bool", "BigInt", "BigDec", "DataByte") {
		m["Get"+a], m["Set"+a] = true, true
	}
	return m
}()

type c04Fam struct {
	fn     string
	tok    token.Token
	kind   string // "bin" | "shift" | "cmp" | "un" | "incdec"
	big    string // math/big.(*Int) method ("" = none)
	bigdec string // bigdec helper ("" = none)
	extra  []string
	lv, rv string
}

const c04G = gvaGno + "."

var c04Fams = []c04Fam{
	{c04G + "addAssign", token.ADD, "bin", "Add", "bigdecAdd", []string{"Float32Type", "Float64Type", "StringType", "UntypedStringType"}, "lv", "rv"},
	{c04G + "subAssign", token.SUB, "bin", "Sub", "bigdecSub", []string{"Float32Type", "Float64Type"}, "lv", "rv"},
	{c04G + "mulAssign", token.MUL, "bin", "Mul", "bigdecMul", []string{"Float32Type", "Float64Type"}, "lv", "rv"},
	{c04G + "quoAssign", token.QUO, "bin", "Quo", "bigdecQuo", []string{"Float32Type", "Float64Type"}, "lv", "rv"},
	{c04G + "remAssign", token.REM, "bin", "Rem", "", nil, "lv", "rv"},
	{c04G + "bandAssign", token.AND, "bin", "And", "", nil, "lv", "rv"},
	{c04G + "bandnAssign", token.AND_NOT, "bin", "AndNot", "", nil, "lv", "rv"},
	{c04G + "borAssign", token.OR, "bin", "Or", "", nil, "lv", "rv"},
	{c04G + "xorAssign", token.XOR, "bin", "Xor", "", nil, "lv", "rv"},
	{c04G + "shlAssign", token.SHL, "shift", "Lsh", "", nil, "lv", "rv"},
	{c04G + "shrAssign", token.SHR, "shift", "Rsh", "", nil, "lv", "rv"},
	{c04G + "isEql", token.EQL, "cmp", "Cmp", "bigdecCmp", []string{"BoolKind"}, "lv", "rv"},
	{c04G + "isLss", token.LSS, "cmp", "Cmp", "bigdecCmp", nil, "lv", "rv"},
	{c04G + "isLeq", token.LEQ, "cmp", "Cmp", "bigdecCmp", nil, "lv", "rv"},
	{c04G + "isGtr", token.GTR, "cmp", "Cmp", "bigdecCmp", nil, "lv", "rv"},
	{c04G + "isGeq", token.GEQ, "cmp", "Cmp", "bigdecCmp", nil, "lv", "rv"},
	{c04G + "(*Machine).doOpUneg", token.SUB, "un", "Neg", "", []string{"Float32Type", "Float64Type", "UntypedBigdecType"}, "xv", ""},
	{c04G + "(*Machine).doOpUxor", token.XOR, "un", "Not", "", nil, "xv", ""},
	{c04G + "(*Machine).doOpInc", token.ADD, "incdec", "Add", "bigdecAdd", []string{"Float32Type", "Float64Type", "DataByteType"}, "lv", ""},
	{c04G + "(*Machine).doOpDec", token.SUB, "incdec", "Sub", "bigdecSub", []string{"Float32Type", "Float64Type", "DataByteType"}, "lv", ""},
}

func (fm c04Fam) short() string { return fm.fn[strings.LastIndexByte(fm.fn, '.')+1:] }

// required case constants of a family member.
func (fm c04Fam) required() []string {
	var out []string
	suffix := "Type"
	if fm.kind == "cmp" {
		suffix = "Kind"
	}
	for _, i := range c04Ints {
		out = append(out, i+suffix)
	}
	switch fm.kind {
	case "bin", "shift":
		out = append(out, "DataByteType", "UntypedRuneType", "UntypedBigintType")
		if fm.bigdec != "" {
			out = append(out, "UntypedBigdecType")
		}
	case "cmp":
		out = append(out, "Float32Kind", "Float64Kind", "StringKind", "BigintKind", "BigdecKind")
	case "un":
		// Go folds unary -/^ over untyped rune constants (-'a' == -97); the binary families list UntypedRuneType next to Int32Type
		out = append(out, "UntypedRuneType", "UntypedBigintType")
	case "incdec":
		out = append(out, "UntypedBigintType", "UntypedBigdecType")
	}
	return append(out, fm.extra...)
}

func c04(c *engine.Ctx) {
	c.Explain = "Decides the completeness and internal consistency of the VM's operator dispatch: kind coverage of every operator-family function (siblings share one requirement table), accessor width agreement inside each case, designated operator / math/big method / bigdec helper with (left,right) operand order, zero-divisor guard returning the exception before every integer / and % and its propagation by all four callers, negative-shift guard before every shift, name agreement of the token→Word→Op→handler→family chain, and accessor/conversion agreement of the 100 integer×integer conversions of ConvertTo. Not covered: preprocessing, constant typing, control flow, builtins, aliasing, i.e. program equivalence as such."
	p := c.Load(gvaGno)
	if p == nil {
		return
	}
	nCov, nAcc, nOp := 0, 0, 0
	t0 := time.Now()
	defer func() {
		if gvaDump {
			fmt.Println("c04 total", time.Since(t0))
		}
	}()
	for _, fm := range c04Fams {
		if gvaDump {
			fmt.Println("c04 fam", fm.short(), time.Since(t0))
		}
		f := c.MustFunc(fm.fn)
		if f == nil {
			continue
		}
		sw := c04FamSwitch(f, fm)
		if sw == nil {
			c.Undecided("kind-coverage", fm.short(), "operand-type switch not found")
			continue
		}
		for _, req := range fm.required() {
			nCov++
			cc := sw.Consts[req]
			c.Check("kind-coverage", fm.short()+" "+req, sw.Stmt.Pos(), cc != nil, "no case for "+req+" (sibling operators have one; the operator would panic 'not defined' where Go computes a value)")
		}
		// per clause rules
		done := map[*ast.CaseClause]bool{}
		for _, cname := range engine.SortedKeys(sw.Consts) {
			cc := sw.Consts[cname]
			if done[cc] {
				continue
			}
			done[cc] = true
			acc := c04Acc(cname)
			if !c04AccNames["Get"+acc] {
				continue // composite kinds (isEql arrays, structs …)
			}
			key := fm.short() + " " + cname
			// accessor width
			nAcc++
			okA, whyA := c04AccessorWidth(f, cc, acc)
			c.Check("accessor-width", key, cc.Pos(), okA, whyA)
			if strings.HasPrefix(acc, "Float") {
				continue // float cases are decided by C05's dispatch table
			}
			if acc == "Bool" && fm.kind == "cmp" || acc == "String" && fm.kind == "bin" {
				// handled below like the integer cases
			}
			nOp++
			okO, whyO := c04Operator(f, cc, fm, acc)
			c.Check("operator", key, cc.Pos(), okO, whyO)
		}
		c.Check("default-panics", fm.short(), sw.Stmt.Pos(), sw.HasDefault && f.ClausePanics(sw.Default), "the operand-type switch must end in a panicking default (an unknown type must not fall through silently)")
	}
	c.Floor("kind-coverage", nCov, 250)
	c.Floor("accessor-width", nAcc, 230)
	c.Floor("operator", nOp, 200)

	for i, step := range []func(*engine.Ctx, *engine.Prog){c04DivZero, c04NegShift, c04Chain, c04IntConv} {
		step(c, p)
		if gvaDump {
			fmt.Println("c04 step", i, time.Since(t0))
		}
	}
}

// c04FamSwitch finds the switch over baseOf(x.T) / x.T.Kind() with the most cases.
func c04FamSwitch(f *engine.Fn, fm c04Fam) *engine.SwitchInfo {
	want := "Int8Type"
	if fm.kind == "cmp" {
		want = "Int8Kind"
	}
	var best *engine.SwitchInfo
	for _, s := range f.Switches() {
		if s.Consts == nil {
			continue
		}
		if _, ok := s.Consts[want]; !ok && len(s.Consts) < 8 {
			continue
		}
		if best == nil || len(s.Consts) > len(best.Consts) {
			best = s
		}
	}
	return best
}

func c04AccessorWidth(f *engine.Fn, cc *ast.CaseClause, acc string) (bool, string) {
	info := f.Info()
	allowed := map[string]bool{"Get" + acc: true, "Set" + acc: true}
	if eq := c04SameRepr[acc]; eq != "" {
		allowed["Get"+eq], allowed["Set"+eq] = true, true
	}
	if acc == "DataByte" {
		allowed["GetUint8"] = true // the right operand of a DataByte op is a uint8 value
	}
	bad := ""
	n := 0
	gvaWalkAll(cc, func(nd ast.Node) bool {
		if call, ok := nd.(*ast.CallExpr); ok {
			if name, _ := gvaTVAccessor(info, call); c04AccNames[name] {
				n++
				if !allowed[name] {
					bad = name
				}
			}
		}
		return true
	})
	if bad != "" {
		return false, "case for " + acc + " uses accessor " + bad + " (value read or written at the wrong width)"
	}
	return true, fmt.Sprintf("%d accessor calls, all of width %s", n, acc)
}

// c04Inline: unexported gnolang helpers may be looked through, except the
// family functions themselves (they are the anchors).
func c04Inline(h *engine.Fn) bool {
	if engine.Rel(h.Pkg.PkgPath) != gvaGno || h.Obj == nil || h.Obj.Exported() {
		return false
	}
	for _, fm := range c04Fams {
		if fm.fn == h.Name {
			return false
		}
	}
	return !strings.HasPrefix(h.Obj.Name(), "bigdec")
}

var c04Opt = gvaNormOpt{Inline: c04Inline}

func c04Named(o types.Object, name string) bool { return o != nil && o.Name() == name }

// c04Roles returns the textual identity (term string) of the left and right
// operand holders of a family member: the two *TypedValue parameters in order,
// or — for the unary/inc-dec handlers, which fetch their operand themselves —
// "" (the left operand is then whatever value the result is stored into).
func c04Roles(f *engine.Fn) (left, right string) {
	ps := gvaTVParams(f)
	if len(ps) >= 2 {
		return (&gvaTerm{Kind: "obj", Obj: ps[0]}).String(), (&gvaTerm{Kind: "obj", Obj: ps[1]}).String()
	}
	return "", ""
}

type c04Result struct {
	val  *gvaTerm // the stored / returned value
	recv string   // term string of the value stored into ("" for returns)
	pos  token.Pos
}

// c04Results collects what the clause produces: arguments of Set<acc> calls,
// right-hand sides of `<x>.V = …` assignments, and returned values.
func c04Results(f *engine.Fn, cc *ast.CaseClause, acc string, cmp bool) []c04Result {
	info := f.Info()
	var out []c04Result
	gvaWalkClause(cc, func(n ast.Node) bool {
		switch x := n.(type) {
		case *ast.ReturnStmt:
			if cmp && len(x.Results) == 1 {
				out = append(out, c04Result{val: gvaNorm(f, x.Results[0], nil, c04Opt, 0), pos: x.Pos()})
			}
		case *ast.CallExpr:
			if cmp {
				return true
			}
			if name, recv := gvaTVAccessor(info, x); strings.HasPrefix(name, "Set") && c04AccNames[name] && len(x.Args) == 1 {
				out = append(out, c04Result{val: gvaNorm(f, x.Args[0], nil, c04Opt, 0), recv: gvaNorm(f, recv, nil, c04Opt, 0).String(), pos: x.Pos()})
			}
		case *ast.AssignStmt:
			if cmp || len(x.Lhs) != 1 || len(x.Rhs) != 1 || x.Tok != token.ASSIGN {
				return true
			}
			if sel, ok := ast.Unparen(x.Lhs[0]).(*ast.SelectorExpr); ok && sel.Sel.Name == "V" {
				if v, ok := info.Uses[sel.Sel].(*types.Var); ok && v.IsField() {
					out = append(out, c04Result{val: gvaNorm(f, x.Rhs[0], nil, c04Opt, 0), recv: gvaNorm(f, sel.X, nil, c04Opt, 0).String(), pos: x.Pos()})
				}
			}
		}
		return true
	})
	return out
}

var c04BigArith = gvaSet("Add", "Sub", "Mul", "Quo", "Rem", "Div", "Mod", "And", "AndNot", "Or", "Xor", "Lsh", "Rsh", "Neg", "Not", "Cmp", "CmpAbs", "Exp", "QuoRem", "DivMod")

// c04FindOp returns the outermost operation node of a result term: a Go
// operator, an arithmetic math/big.(*Int) method or a bigdec helper.
func c04FindOp(t *gvaTerm) *gvaTerm {
	if t == nil {
		return nil
	}
	switch t.Kind {
	case "binop":
		switch t.Name {
		case "&&", "||":
		default:
			return t
		}
	case "unop":
		return t
	case "call":
		if strings.HasPrefix(t.Name, "math/big.(*Int).") && c04BigArith[t.Name[len("math/big.(*Int)."):]] {
			return t
		}
		if strings.HasPrefix(t.Name, c04G+"bigdec") && t.Name != c04G+"bigdecValueErrString" {
			return t
		}
	}
	for _, a := range t.Args {
		if r := c04FindOp(a); r != nil {
			return r
		}
	}
	return nil
}

// c04Reads: term is (Go conversions of) accessor Get<acc> applied to the operand holder `who`.
func c04Reads(t *gvaTerm, who string, accs ...string) (bool, string) {
	t = gvaStripConv(t)
	if t == nil || t.Kind != "acc" || len(t.Args) != 1 {
		return false, "operand is not an accessor read: " + t.String()
	}
	okAcc := false
	for _, a := range accs {
		if strings.HasPrefix(t.Name, "Get") && c04SameAcc(t.Name[3:], a) {
			okAcc = true
		}
	}
	if !okAcc {
		return false, "operand read with " + t.Name
	}
	if who != "" && t.Args[0].String() != who {
		return false, "operand read from the wrong value"
	}
	return true, ""
}

func c04IsConst(t *gvaTerm, v string) bool { return t != nil && t.Kind == "const" && t.Name == v }

// c04Operator checks the operation performed in one case clause: the value
// stored into the left operand (or returned, for comparisons) is the family's
// designated operation applied to (left, right) read at the case's width. A
// hoisted local or a single-return helper does not matter.
func c04Operator(f *engine.Fn, cc *ast.CaseClause, fm c04Fam, acc string) (bool, string) {
	if acc == "BigDec" && fm.kind == "un" {
		return true, "bigdec negation (two representations) not analysed"
	}
	left, right := c04Roles(f)
	cmp := fm.kind == "cmp"
	var results []c04Result
	for _, r := range c04Results(f, cc, acc, cmp) {
		if c04FindOp(r.val) != nil {
			results = append(results, r)
		}
	}
	if len(results) == 0 {
		return false, "no stored/returned value that is an operation over the operands"
	}
	for _, r := range results {
		l, rt := left, right
		if l == "" {
			l = r.recv // unary / inc-dec: the operand is the value written back
		} else if !cmp && r.recv != l {
			return false, "result is not stored into the left operand"
		}
		op := c04FindOp(r.val)
		if ok, why := c04CheckOp(op, fm, acc, l, rt); !ok {
			return false, why
		}
		if cmp {
			// the operation must be the returned value itself, not negated or combined
			top := r.val
			if top != op {
				return false, "comparison result is not returned as is"
			}
		}
	}
	return true, "left " + fm.tok.String() + " right at width " + acc
}

func c04CheckOp(op *gvaTerm, fm c04Fam, acc, left, right string) (bool, string) {
	has := func(t *gvaTerm, who string) bool { return who != "" && strings.Contains(t.String(), who) }
	switch acc {
	case "BigInt":
		if fm.kind == "cmp" {
			// cmp(left,right) <tok> 0
			if op.Kind != "binop" || len(op.Args) != 2 {
				return false, "three-way compare is not tested against 0"
			}
			call := gvaStripConv(op.Args[0])
			if call.Kind != "call" || call.Name != "math/big.(*Int).Cmp" || len(call.Args) != 2 {
				return false, "expected left.Cmp(right), found " + call.Name
			}
			if !has(call.Args[0], left) || has(call.Args[0], right) || !has(call.Args[1], right) || has(call.Args[1], left) {
				return false, "Cmp must be left.Cmp(right)"
			}
			if op.Name != fm.tok.String() || !c04IsConst(op.Args[1], "0") {
				return false, "three-way result tested with `" + op.Name + " " + op.Args[1].String() + "`, designated `" + fm.tok.String() + " 0`"
			}
			return true, ""
		}
		if op.Kind != "call" || !strings.HasPrefix(op.Name, "math/big.(*Int).") {
			return false, "expected a math/big operation, found " + op.String()
		}
		m := op.Name[len("math/big.(*Int)."):]
		if m != fm.big {
			return false, "applies big.Int." + m + ", designated is big.Int." + fm.big
		}
		args := op.Args[1:] // drop the receiver (result holder)
		if len(args) < 1 || !has(args[0], left) || has(args[0], right) {
			return false, "first operand of big.Int." + m + " is not the left value"
		}
		switch fm.kind {
		case "un":
		case "incdec":
			if len(args) != 2 || args[1].Kind != "call" || args[1].Name != "math/big.NewInt" || !c04IsConst(args[1].Args[0], "1") {
				return false, "step must be big.NewInt(1)"
			}
		default:
			if len(args) != 2 || !has(args[1], right) || has(args[1], left) {
				return false, "second operand of big.Int." + m + " is not the right value"
			}
		}
		return true, ""
	case "BigDec":
		if fm.kind == "un" {
			return true, ""
		}
		call := op
		if fm.kind == "cmp" {
			if op.Kind != "binop" || len(op.Args) != 2 {
				return false, "three-way compare is not tested against 0"
			}
			call = gvaStripConv(op.Args[0])
			if op.Name != fm.tok.String() || !c04IsConst(op.Args[1], "0") {
				return false, "three-way result tested with `" + op.Name + " …`, designated `" + fm.tok.String() + " 0`"
			}
		}
		if call.Kind != "call" || call.Name != c04G+fm.bigdec || len(call.Args) != 2 {
			return false, "expected " + fm.bigdec + "(left, right), found " + call.String()
		}
		if !has(call.Args[0], left) || has(call.Args[0], right) {
			return false, "left operand of " + fm.bigdec + " is not the left value"
		}
		if (fm.kind == "bin" || fm.kind == "cmp") && (!has(call.Args[1], right) || has(call.Args[1], left)) {
			return false, "right operand of " + fm.bigdec + " is not the right value"
		}
		return true, ""
	}
	// primitive widths
	if fm.kind == "un" {
		if op.Kind != "unop" || op.Name != fm.tok.String() {
			return false, "operator differs from the designated unary " + fm.tok.String() + ": " + op.Kind + " " + op.Name
		}
		return c04Reads(op.Args[0], left, acc)
	}
	if op.Kind != "binop" {
		return false, "unary operator in a binary operation"
	}
	if op.Name != fm.tok.String() {
		return false, "applies `" + op.Name + "`, designated operator is `" + fm.tok.String() + "`"
	}
	if ok, why := c04Reads(op.Args[0], left, acc); !ok {
		return false, "left operand of `" + op.Name + "`: " + why
	}
	switch fm.kind {
	case "incdec":
		if !c04IsConst(gvaStripConv(op.Args[1]), "1") {
			return false, "step is not the constant 1"
		}
	case "shift":
		if ok, why := c04Reads(op.Args[1], right, "Uint"); !ok {
			return false, "shift count: " + why
		}
	default:
		racc := acc
		if acc == "DataByte" {
			racc = "Uint8"
		}
		if ok, why := c04Reads(op.Args[1], right, racc); !ok {
			return false, "right operand of `" + op.Name + "`: " + why
		}
	}
	return true, ""
}

// ---- division by zero ----

func c04DivZero(c *engine.Ctx, p *engine.Prog) {
	n := 0
	for _, fname := range []string{"quoAssign", "remAssign"} {
		f := c.MustFunc(c04G + fname)
		if f == nil {
			continue
		}
		info := f.Info()
		g := f.Graph()
		var fm c04Fam
		for _, x := range c04Fams {
			if x.fn == c04G+fname {
				fm = x
			}
		}
		sw := c04FamSwitch(f, fm)
		if sw == nil {
			continue
		}
		done := map[*ast.CaseClause]bool{}
		for _, cname := range engine.SortedKeys(sw.Consts) {
			cc := sw.Consts[cname]
			acc := c04Acc(cname)
			if done[cc] || strings.HasPrefix(acc, "Float") || !c04AccNames["Get"+acc] {
				continue
			}
			done[cc] = true
			key := fname + " " + cname
			// the dividing operation
			var target ast.Node
			gvaWalkClause(cc, func(nd ast.Node) bool {
				switch x := nd.(type) {
				case *ast.BinaryExpr:
					if x.Op == token.QUO || x.Op == token.REM {
						target = x
					}
				case *ast.CallExpr:
					if _, cn := gvaCallee(info, x); cn == "math/big.(*Int).Quo" || cn == "math/big.(*Int).Rem" || cn == c04G+"bigdecQuo" {
						target = x
					}
				}
				return true
			})
			n++
			if target == nil {
				c.Check("div-zero-guard", key, cc.Pos(), false, "no dividing operation found in the case")
				continue
			}
			site := f.SiteOf(target)
			if site == nil {
				c.Undecided("div-zero-guard", key, "dividing operation not located in the CFG")
				continue
			}
			ok, why := false, "no `right == 0` test returning the exception gates the division"
			_, right := c04Roles(f)
			for _, gt := range g.Gates(site) {
				conj := token.LAND
				if !gt.OnTrue {
					conj = token.LOR
				}
				for _, atom := range engine.Conjuncts(gt.Cond, conj) {
					b, isb := ast.Unparen(atom).(*ast.BinaryExpr)
					if !isb {
						continue
					}
					op := b.Op
					if gt.OnTrue {
						op = engine.Negate(op)
					}
					if op != token.EQL { // the division runs where the test `== 0` failed
						continue
					}
					xt, yt := gvaNorm(f, b.X, nil, c04Opt, 0), gvaNorm(f, b.Y, nil, c04Opt, 0)
					if c04IsConst(xt, "0") {
						xt, yt = yt, xt
					}
					if !c04IsConst(yt, "0") {
						continue
					}
					wantAcc := acc
					if acc == "DataByte" {
						wantAcc = "Uint8"
					}
					zeroOK := false
					if okr, _ := c04Reads(xt, right, wantAcc); okr {
						zeroOK = true
					} else if st := gvaStripConv(xt); st.Kind == "call" && strings.HasSuffix(st.Name, ".Sign") && strings.Contains(st.String(), right) {
						zeroOK = true
					}
					if !zeroOK {
						why = "zero test reads `" + engine.ExprString(b.X) + "`, not the right operand at width " + acc
						continue
					}
					// failing branch returns a non-nil exception
					fail := gt.Block.Succs[0]
					if gt.OnTrue {
						fail = gt.Block.Succs[1]
					}
					ret := fail.Return()
					if ret == nil || len(ret.Results) != 1 || c04IsConst(gvaNorm(f, ret.Results[0], nil, c04Opt, 0), "nil") {
						why = "the zero branch does not return the division-by-zero exception"
						continue
					}
					ok, why = true, "division reached only when "+engine.ExprString(b.X)+" != 0; zero branch returns "+engine.ExprString(ret.Results[0])
				}
			}
			c.Check("div-zero-guard", key, target.Pos(), ok, why)
		}
		// expt is the division-by-zero runtime error
		found := false
		engine.InspectBody(f, func(nd ast.Node) {
			if bl, ok := nd.(*ast.BasicLit); ok && bl.Kind == token.STRING && strings.Contains(bl.Value, "division by zero") {
				found = true
			}
		})
		c.Check("div-zero-guard", fname+" message", f.Pos(), found, "the exception value must be the runtime error 'division by zero'")
	}
	c.Floor("div-zero-guard", n, 25)

	// every caller raises the returned exception
	nc := 0
	for _, callee := range []string{"quoAssign", "remAssign"} {
		for _, r := range p.RefsToFunc(c04G + callee) {
			if r.Fn == nil {
				continue
			}
			nc++
			f := r.Fn
			key := f.Name[strings.LastIndexByte(f.Name, '.')+1:] + " -> " + callee
			if !r.IsCall {
				c.Check("div-zero-raised", key, r.Ident.Pos(), false, "function value taken; result handling unknown")
				continue
			}
			ok, why := c04Raises(f, r.Ident)
			c.Check("div-zero-raised", key, r.Ident.Pos(), ok, why)
		}
	}
	c.Floor("div-zero-raised", nc, 4)
}

// c04Raises: the exception returned by the division helper is raised: every
// normal exit of the caller that is reachable after the call is reached only
// when the result is nil (directly, or through a helper that returns only when
// its argument is nil), and a non-returning call carries the result.
func c04Raises(f *engine.Fn, callee *ast.Ident) (bool, string) {
	info := f.Info()
	var errObj types.Object
	var asg *ast.AssignStmt
	engine.InspectBody(f, func(n ast.Node) {
		as, ok := n.(*ast.AssignStmt)
		if !ok || len(as.Rhs) != 1 || len(as.Lhs) != 1 {
			return
		}
		if call, ok := as.Rhs[0].(*ast.CallExpr); ok && ast.Unparen(call.Fun) == ast.Expr(callee) {
			errObj = engine.ObjOf(info, as.Lhs[0])
			asg = as
		}
	})
	if errObj == nil {
		return false, "result of the division helper is not bound to a variable"
	}
	site := f.SiteOf(asg)
	if site == nil {
		return false, "call not located in the CFG"
	}
	g := f.Graph()
	// a non-returning call carries the exception (here or in the raising helper)
	carried := false
	var raisers []*engine.Site
	for _, s := range f.Calls() {
		if s.Call == nil || !g.ReachableAfter(site, s) {
			continue
		}
		mentions := false
		for _, a := range s.Call.Args {
			if engine.Mentions(info, a, errObj) {
				mentions = true
			}
		}
		if !mentions {
			continue
		}
		if !f.Prog.MayReturn(info, s.Call) {
			carried = true
			continue
		}
		if fo, ok := s.Callee.(*types.Func); ok {
			if h := f.Prog.FnOf(fo); h != nil {
				for i, a := range s.Call.Args {
					if engine.ObjOf(info, a) == errObj {
						if po := paramObj(h, i); po != nil {
							if okh, _ := c04ExitsOnlyWhenNil(h, po, nil); okh {
								raisers = append(raisers, s)
								carried = true
							}
						}
					}
				}
			}
		}
	}
	if !carried {
		return false, "no panic carries the returned exception"
	}
	return c04ExitsOnlyWhenNil(f, errObj, func(exit *engine.Site) bool {
		return exit.Block != site.Block && !g.ReachableAfter(site, exit) // exit not after the call
	}, raisers...)
}

// c04ExitsOnlyWhenNil: every normal exit of f (return or end of body) holds the fact obj == nil,
// or is preceded on every path by one of the raiser call sites; skip lets the caller exempt exits.
func c04ExitsOnlyWhenNil(f *engine.Fn, obj types.Object, skip func(*engine.Site) bool, raisers ...*engine.Site) (bool, string) {
	info := f.Info()
	g := f.Graph()
	n := 0
	for _, b := range g.CFG.Blocks {
		if !b.Live || len(b.Succs) != 0 {
			continue
		}
		// a block ending in a no-return call is not a normal exit
		if len(b.Nodes) > 0 {
			if es, ok := b.Nodes[len(b.Nodes)-1].(*ast.ExprStmt); ok {
				if call, ok := es.X.(*ast.CallExpr); ok && !f.Prog.MayReturn(info, call) {
					continue
				}
			}
		}
		exit := &engine.Site{Fn: f, Block: b, Idx: len(b.Nodes), Node: f.Body}
		if skip != nil && skip(exit) {
			continue
		}
		n++
		if len(raisers) > 0 && g.MustPass(exit, raisers) {
			continue
		}
		holds := false
		for _, gt := range g.Gates(exit) {
			conj := token.LAND
			if !gt.OnTrue {
				conj = token.LOR
			}
			for _, atom := range engine.Conjuncts(gt.Cond, conj) {
				bx, ok := ast.Unparen(atom).(*ast.BinaryExpr)
				if !ok {
					continue
				}
				x, y := bx.X, bx.Y
				if isNil(x) {
					x, y = y, x
				}
				if engine.ObjOf(info, x) != obj || !isNil(y) {
					continue
				}
				op := bx.Op
				if !gt.OnTrue {
					op = engine.Negate(op)
				}
				if op == token.EQL {
					holds = true
				}
			}
		}
		if !holds {
			return false, "a normal exit is reachable while the returned exception is non-nil (test missing or weakened)"
		}
	}
	if n == 0 {
		return true, "no normal exit after the call"
	}
	return true, "every normal exit after the call holds result == nil"
}

// ---- negative shift ----

func c04NegShift(c *engine.Ctx, p *engine.Prog) {
	for _, fname := range []string{"shlAssign", "shrAssign"} {
		f := c.MustFunc(c04G + fname)
		if f == nil {
			continue
		}
		info := f.Info()
		g := f.Graph()
		tvp := gvaTVParams(f)
		if len(tvp) < 2 {
			c.Undecided("neg-shift-guard", fname, "shift function has no (left, right) *TypedValue parameters")
			continue
		}
		rightObj := tvp[1]
		right := (&gvaTerm{Kind: "obj", Obj: rightObj}).String()
		var targets []ast.Node
		engine.InspectBody(f, func(nd ast.Node) {
			switch x := nd.(type) {
			case *ast.BinaryExpr:
				if (x.Op == token.SHL || x.Op == token.SHR) && info.Types[x].Value == nil {
					targets = append(targets, x)
				}
			case *ast.CallExpr:
				if _, cn := gvaCallee(info, x); cn == "math/big.(*Int).Lsh" || cn == "math/big.(*Int).Rsh" {
					targets = append(targets, x)
				}
			}
		})
		c.Floor("neg-shift-guard "+fname, len(targets), 1)
		// helper calls that return only for a non-negative count
		var guards []*engine.Site
		for _, s := range f.Calls() {
			fo, ok := s.Callee.(*types.Func)
			if !ok || s.Deferred {
				continue
			}
			h := f.Prog.FnOf(fo)
			if h == nil {
				continue
			}
			for i, a := range s.Call.Args {
				if engine.ObjOf(info, a) != rightObj {
					continue
				}
				po := paramObj(h, i)
				if po == nil {
					continue
				}
				pstr := (&gvaTerm{Kind: "obj", Obj: po}).String()
				for _, hs := range h.Calls() {
					if hs.Call != nil && !h.Prog.MayReturn(h.Info(), hs.Call) && c04NegFact(h, hs, pstr, true) {
						guards = append(guards, s)
					}
				}
			}
		}
		bad := ""
		for _, t := range targets {
			site := f.SiteOf(t)
			if site == nil {
				bad = "shift not located in CFG"
				break
			}
			if c04NegFact(f, site, right, false) || (len(guards) > 0 && g.MustPass(site, guards)) {
				continue
			}
			bad = "shift at " + p.Pos(t.Pos()) + " is reachable with a negative count (no `right.Sign() < 0` test that panics on every path to it)"
			break
		}
		c.Check("neg-shift-guard", fname, f.Pos(), bad == "", bad)
	}
}

// c04NegFact: at site s the fact `who.Sign() < 0` has the given truth value
// (established by a dominating branch; && / || split by polarity).
func c04NegFact(f *engine.Fn, s *engine.Site, who string, want bool) bool {
	g := f.Graph()
	for _, gt := range g.Gates(s) {
		conj := token.LAND
		if !gt.OnTrue {
			conj = token.LOR
		}
		for _, atom := range engine.Conjuncts(gt.Cond, conj) {
			b, ok := ast.Unparen(atom).(*ast.BinaryExpr)
			if !ok {
				continue
			}
			xt, yt := gvaNorm(f, b.X, nil, c04Opt, 0), gvaNorm(f, b.Y, nil, c04Opt, 0)
			op := b.Op
			if c04IsConst(xt, "0") {
				xt, yt, op = yt, xt, engine.Flip(op)
			}
			if !c04IsConst(yt, "0") {
				continue
			}
			st := gvaStripConv(xt)
			if st.Kind != "call" || st.Name != c04G+"(*TypedValue).Sign" || len(st.Args) != 1 || st.Args[0].String() != who {
				continue
			}
			if !gt.OnTrue {
				op = engine.Negate(op)
			}
			// fact: Sign() op 0
			if want && op == token.LSS {
				return true
			}
			if !want && op == token.GEQ {
				return true
			}
		}
	}
	return false
}

// ---- token → Word → Op → handler → family ----

var c04WordOp = map[string]map[string]string{
	"word2BinaryOp": {"ADD": "OpAdd", "SUB": "OpSub", "MUL": "OpMul", "QUO": "OpQuo", "REM": "OpRem", "BAND": "OpBand", "BOR": "OpBor", "XOR": "OpXor",
		"SHL": "OpShl", "SHR": "OpShr", "BAND_NOT": "OpBandn", "LAND": "OpLand", "LOR": "OpLor", "EQL": "OpEql", "LSS": "OpLss", "GTR": "OpGtr", "NEQ": "OpNeq", "LEQ": "OpLeq", "GEQ": "OpGeq"},
	"word2UnaryOp": {"ADD": "OpUpos", "SUB": "OpUneg", "NOT": "OpUnot", "XOR": "OpUxor"},
}

var c04AssignOp = map[string]string{"ASSIGN": "OpAssign", "ADD_ASSIGN": "OpAddAssign", "SUB_ASSIGN": "OpSubAssign", "MUL_ASSIGN": "OpMulAssign", "QUO_ASSIGN": "OpQuoAssign",
	"REM_ASSIGN": "OpRemAssign", "BAND_ASSIGN": "OpBandAssign", "BOR_ASSIGN": "OpBorAssign", "XOR_ASSIGN": "OpXorAssign", "SHL_ASSIGN": "OpShlAssign", "SHR_ASSIGN": "OpShrAssign",
	"BAND_NOT_ASSIGN": "OpBandnAssign", "DEFINE": "OpDefine"}

var c04TokWord = map[string]string{"ADD": "ADD", "SUB": "SUB", "MUL": "MUL", "QUO": "QUO", "REM": "REM", "AND": "BAND", "OR": "BOR", "XOR": "XOR", "SHL": "SHL", "SHR": "SHR", "AND_NOT": "BAND_NOT",
	"ADD_ASSIGN": "ADD_ASSIGN", "SUB_ASSIGN": "SUB_ASSIGN", "MUL_ASSIGN": "MUL_ASSIGN", "QUO_ASSIGN": "QUO_ASSIGN", "REM_ASSIGN": "REM_ASSIGN", "AND_ASSIGN": "BAND_ASSIGN", "OR_ASSIGN": "BOR_ASSIGN",
	"XOR_ASSIGN": "XOR_ASSIGN", "SHL_ASSIGN": "SHL_ASSIGN", "SHR_ASSIGN": "SHR_ASSIGN", "AND_NOT_ASSIGN": "BAND_NOT_ASSIGN", "LAND": "LAND", "LOR": "LOR", "INC": "INC", "DEC": "DEC",
	"EQL": "EQL", "LSS": "LSS", "GTR": "GTR", "ASSIGN": "ASSIGN", "NOT": "NOT", "NEQ": "NEQ", "LEQ": "LEQ", "GEQ": "GEQ", "DEFINE": "DEFINE"}

// handler → family function it must call (exactly one family call).
var c04Handler = map[string]string{
	"doOpAdd": "addAssign", "doOpSub": "subAssign", "doOpMul": "mulAssign", "doOpQuo": "quoAssign", "doOpRem": "remAssign",
	"doOpBand": "bandAssign", "doOpBandn": "bandnAssign", "doOpBor": "borAssign", "doOpXor": "xorAssign", "doOpShl": "shlAssign", "doOpShr": "shrAssign",
	"doOpAddAssign": "addAssign", "doOpSubAssign": "subAssign", "doOpMulAssign": "mulAssign", "doOpQuoAssign": "quoAssign", "doOpRemAssign": "remAssign",
	"doOpBandAssign": "bandAssign", "doOpBandnAssign": "bandnAssign", "doOpBorAssign": "borAssign", "doOpXorAssign": "xorAssign", "doOpShlAssign": "shlAssign", "doOpShrAssign": "shrAssign",
	"doOpEql": "isEql", "doOpNeq": "isEql", "doOpLss": "isLss", "doOpLeq": "isLeq", "doOpGtr": "isGtr", "doOpGeq": "isGeq",
}

// opcodes whose handler is deliberately shared (the statement executor re-enters on sticky ops).
var c04SharedHandler = map[string]string{"OpBody": "doOpExec", "OpForLoop": "doOpExec", "OpRangeIter": "doOpExec", "OpRangeIterArrayPtr": "doOpExec",
	"OpRangeIterMap": "doOpExec", "OpRangeIterString": "doOpExec"}

func c04Chain(c *engine.Ctx, p *engine.Prog) {
	// Word → Op
	for fname, table := range c04WordOp {
		f := c.MustFunc(c04G + fname)
		if f == nil {
			continue
		}
		sw := gvaMainSwitch(f, nil)
		if sw == nil {
			c.Undecided("word-op", fname, "switch not found")
			continue
		}
		n := 0
		for _, w := range engine.SortedKeys(table) {
			n++
			c.Check("word-op", fname+" "+w, sw.Stmt.Pos(), c04ClauseYields(f, sw.Consts[w], table[w], "return"), "case "+w+" must return "+table[w])
		}
		for _, w := range engine.SortedKeys(sw.Consts) {
			if _, ok := table[w]; !ok && !f.ClausePanics(sw.Consts[w]) {
				c.Check("word-op", fname+" "+w, sw.Consts[w].Pos(), false, "untabled operator word mapped to an Op")
			}
		}
		c.Floor("word-op "+fname, n, len(table))
	}
	// assign-op Word → Op in doOpExec
	if f := c.MustFunc(c04G + "(*Machine).doOpExec"); f != nil {
		var sw *engine.SwitchInfo
		for _, s := range f.Switches() {
			if s.Consts != nil && s.Consts["ADD_ASSIGN"] != nil && s.Consts["DEFINE"] != nil {
				sw = s
			}
		}
		if sw == nil {
			c.Undecided("word-op", "doOpExec", "assign-operator switch not found")
		} else {
			n := 0
			for _, w := range engine.SortedKeys(c04AssignOp) {
				n++
				c.Check("word-op", "doOpExec "+w, sw.Stmt.Pos(), c04ClauseYields(f, sw.Consts[w], c04AssignOp[w], "push"), "case "+w+" must push "+c04AssignOp[w])
			}
			c.Floor("word-op doOpExec", n, 13)
		}
	}
	// token → Word
	{
		n := 0
		var lit *ast.CompositeLit
		var info *types.Info
		if pk := p.Pkg(gvaGno); pk != nil {
			info = pk.TypesInfo
			for _, file := range pk.Syntax {
				for _, d := range file.Decls {
					gd, ok := d.(*ast.GenDecl)
					if !ok {
						continue
					}
					for _, s := range gd.Specs {
						if vs, ok := s.(*ast.ValueSpec); ok && len(vs.Names) == 1 && vs.Names[0].Name == "token2word" && len(vs.Values) == 1 {
							lit, _ = vs.Values[0].(*ast.CompositeLit)
						}
					}
				}
			}
		}
		if lit == nil {
			c.Undecided("token-word", "token2word", "map literal not found")
		} else {
			got := map[string]string{}
			for _, el := range lit.Elts {
				kv, ok := el.(*ast.KeyValueExpr)
				if !ok {
					continue
				}
				k, _ := engine.ObjOf(info, kv.Key).(*types.Const)
				v, _ := engine.ObjOf(info, kv.Value).(*types.Const)
				if k != nil && v != nil {
					got[k.Name()] = v.Name()
				}
			}
			for _, t := range engine.SortedKeys(c04TokWord) {
				n++
				c.Check("token-word", "token."+t, lit.Pos(), got[t] == c04TokWord[t], "token."+t+" maps to `"+got[t]+"`, want "+c04TokWord[t])
			}
			c.Floor("token-word", n, 35)
		}
	}
	// Op → handler in Machine.Run
	if f := c.MustFunc(c04G + "(*Machine).runOnce"); f != nil {
		sw := gvaMainSwitch(f, nil)
		n := 0
		if sw == nil {
			c.Undecided("op-handler", "runOnce", "opcode switch not found")
		} else {
			for _, op := range engine.SortedKeys(sw.Consts) {
				cc := sw.Consts[op]
				if !strings.HasPrefix(op, "Op") {
					continue
				}
				var handlers []string
				gvaWalkClause(cc, func(nd ast.Node) bool {
					if call, ok := nd.(*ast.CallExpr); ok {
						if _, cn := gvaCallee(f.Info(), call); strings.HasPrefix(cn, c04G+"(*Machine).doOp") {
							handlers = append(handlers, cn[len(c04G+"(*Machine)."):])
						}
					}
					return true
				})
				if len(handlers) == 0 {
					continue // control ops handled inline (OpHalt, OpNoop, …)
				}
				n++
				want := "do" + op
				if alt := c04SharedHandler[op]; alt != "" {
					want = alt
				}
				ok := len(handlers) == 1 && handlers[0] == want && len(cc.List) == 1
				c.Check("op-handler", op, cc.Pos(), ok, fmt.Sprintf("case %s calls %v, want exactly %s", op, handlers, want))
			}
			c.Floor("op-handler", n, 85)
		}
	}
	// handler → family
	n := 0
	fam := map[string]bool{}
	for _, v := range c04Handler {
		fam[c04G+v] = true
	}
	for _, h := range engine.SortedKeys(c04Handler) {
		f := c.MustFunc(c04G + "(*Machine)." + h)
		if f == nil {
			continue
		}
		n++
		names := map[string]bool{}
		var direct []*engine.Site
		for _, d := range f.DeepFind(2, func(fn *engine.Fn, nd ast.Node) bool {
			call, isC := nd.(*ast.CallExpr)
			if !isC {
				return false
			}
			st := fn.SiteOf(call)
			return st != nil && fam[st.CalleeName()]
		}) {
			names[d.Inner.CalleeName()[len(c04G):]] = true
			if d.Inner == d.Outer {
				direct = append(direct, d.Inner)
			}
		}
		got := gvaSorted(names)
		ok := len(got) == 1 && got[0] == c04Handler[h]
		why := fmt.Sprintf("reaches %v, want exactly %s", got, c04Handler[h])
		if ok {
			// operand order: the value popped first (PopValue) is the right operand, the
			// peeked / pointer-resolved one the left; fail only on a recognisable swap
			for _, s := range direct {
				fo, _ := s.Callee.(*types.Func)
				if fo == nil {
					continue
				}
				ps := fo.Type().(*types.Signature).Params()
				var idx []int
				for i := 0; i < ps.Len(); i++ {
					if engine.TypeName(ps.At(i).Type()) == "*"+gvaGno+".TypedValue" {
						idx = append(idx, i)
					}
				}
				if len(idx) < 2 || idx[1] >= len(s.Call.Args) {
					continue
				}
				lt := gvaNorm(f, s.Call.Args[idx[0]], nil, gvaNormOpt{}, 0).String()
				rt := gvaNorm(f, s.Call.Args[idx[1]], nil, gvaNormOpt{}, 0).String()
				isLeftSrc := func(x string) bool { return strings.Contains(x, ".PeekValue") || strings.Contains(x, ".PopAsPointer") }
				isRightSrc := func(x string) bool { return strings.Contains(x, ".PopValue") }
				if lt == rt || (isRightSrc(lt) && !isLeftSrc(lt)) || (isLeftSrc(rt) && !isRightSrc(rt)) {
					ok, why = false, "operands are passed as (right, left) or the same value twice"
				}
			}
		}
		if ok && (h == "doOpNeq" || h == "doOpEql") {
			// the boolean stored is isEql(…) for ==, its negation for !=
			seen := false
			engine.InspectBody(f, func(nd ast.Node) {
				call, isC := nd.(*ast.CallExpr)
				if !isC {
					return
				}
				if name, _ := gvaTVAccessor(f.Info(), call); name != "SetBool" || len(call.Args) != 1 {
					return
				}
				t := gvaNorm(f, call.Args[0], nil, c04Opt, 0)
				neg := false
				for t.Kind == "unop" && t.Name == "!" {
					neg = !neg
					t = t.Args[0]
				}
				if t.Kind == "call" && t.Name == c04G+"isEql" {
					seen = true
					if neg != (h == "doOpNeq") {
						ok, why = false, "== must store isEql, != its negation"
					}
				}
			})
			if !seen {
				ok, why = false, "the stored boolean is not derived from isEql"
			}
		}
		c.Check("handler-family", h, f.Pos(), ok, why)
	}
	c.Floor("handler-family", n, 28)
}

// c04ClauseYields: the clause's sole statement returns / pushes the named Op constant.
func c04ClauseYields(f *engine.Fn, cc *ast.CaseClause, want, how string) bool {
	if cc == nil || len(cc.List) != 1 {
		return false
	}
	info := f.Info()
	good, bad := 0, 0
	isWant := func(e ast.Expr) bool {
		k, _ := engine.ObjOf(info, e).(*types.Const)
		return k != nil && k.Name() == want
	}
	gvaWalkClause(cc, func(n ast.Node) bool {
		switch x := n.(type) {
		case *ast.ReturnStmt:
			if how == "return" && len(x.Results) == 1 {
				if isWant(x.Results[0]) {
					good++
				} else {
					bad++
				}
			}
		case *ast.CallExpr:
			if how == "push" {
				if _, cn := gvaCallee(info, x); cn == c04G+"(*Machine).PushOp" && len(x.Args) == 1 {
					if isWant(x.Args[0]) {
						good++
					} else {
						bad++
					}
				}
			}
		}
		return true
	})
	return good >= 1 && bad == 0
}

// ---- integer × integer conversions ----

func c04IntConv(c *engine.Ctx, p *engine.Prog) {
	f := c.MustFunc(c04G + "ConvertTo")
	if f == nil {
		return
	}
	info := f.Info()
	var outer *engine.SwitchInfo
	for _, s := range f.Switches() {
		if s.Consts != nil && s.Consts["Float64Kind"] != nil && s.Consts["Uint16Kind"] != nil && s.Consts["SliceKind"] != nil {
			outer = s
		}
	}
	if outer == nil {
		c.Undecided("int-conv", "ConvertTo", "outer switch over the source kind not found")
		return
	}
	n := 0
	for _, fromI := range c04Ints {
		from := fromI + "Kind"
		occ := outer.Consts[from]
		if occ == nil {
			c.Check("int-conv", from, outer.Stmt.Pos(), false, "no case for source kind")
			continue
		}
		var inner *ast.SwitchStmt
		for _, st := range occ.Body {
			if s, ok := st.(*ast.SwitchStmt); ok {
				inner = s
			}
		}
		if inner == nil {
			c.Undecided("int-conv", from, "inner switch not found")
			continue
		}
		clauses := map[string]*ast.CaseClause{}
		for _, st := range inner.Body.List {
			cc := st.(*ast.CaseClause)
			for _, e := range cc.List {
				if o, ok := engine.ObjOf(info, e).(*types.Const); ok {
					clauses[o.Name()] = cc
				}
			}
		}
		for _, toI := range append(append([]string{}, c04Ints...), "String") {
			to := toI + "Kind"
			key := from + ">" + to
			n++
			cc := clauses[to]
			if cc == nil {
				c.Check("int-conv", key, inner.Pos(), false, "no case for this conversion (Go allows it)")
				continue
			}
			if toI == "String" {
				c.Check("int-conv", key, cc.Pos(), true, "case present (value of the rune conversion not analysed)")
				continue
			}
			ok, why := c04CheckIntConv(f, cc, fromI, toI)
			c.Check("int-conv", key, cc.Pos(), ok, why)
		}
	}
	c.Floor("int-conv", n, 110)
}

func c04CheckIntConv(f *engine.Fn, cc *ast.CaseClause, from, to string) (bool, string) {
	info := f.Info()
	if len(cc.List) != 1 {
		return false, "case shared between target kinds"
	}
	// every Set in the clause (outside the constant-validation closure) stores, at the
	// target width, the source accessor through at most one Go integer conversion
	nset := 0
	why := ""
	gvaWalkClause(cc, func(nd ast.Node) bool {
		call, ok := nd.(*ast.CallExpr)
		if !ok {
			return true
		}
		name, _ := gvaTVAccessor(info, call)
		if !strings.HasPrefix(name, "Set") || !c04AccNames[name] || len(call.Args) != 1 {
			return true
		}
		nset++
		if !c04SameAcc(name[3:], to) {
			why = "stores with " + name + ", want Set" + to
			return true
		}
		t := gvaNorm(f, call.Args[0], nil, c04Opt, 0)
		nconv := 0
		for t.Kind == "conv" && len(t.Args) == 1 {
			nconv++
			t = t.Args[0]
		}
		if t.Kind != "acc" || !strings.HasPrefix(t.Name, "Get") || !c04SameAcc(t.Name[3:], from) {
			why = "stored value is not the source accessor Get" + from + " (found " + t.Kind + " " + t.Name + ")"
			return true
		}
		if nconv > 1 {
			why = "the Go conversion is not applied directly to Get" + from + "() (an intermediate conversion changes sign/zero extension)"
		}
		return true
	})
	if why != "" {
		return false, why
	}
	if nset == 0 {
		return false, "no Set" + to + " in the case"
	}
	return true, "Set" + to + "([T](Get" + from + "()))"
}
