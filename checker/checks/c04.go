package checks

import (
	"fmt"
	"go/ast"
	"go/token"
	"go/types"
	"strings"
	"time"

	"gnoverif/engine"
)

// C04 — the VM's operator tables are complete and internally consistent.
func init() {
	register("C04", c04)
	meta("C04", Meta{
		Text:      "Decides, for every member of the operator families of the VM (binary arithmetic/bitwise/shift *Assign functions, the five comparison functions, unary - and ^, ++/--) and for every integer×integer pair of ConvertTo: each required operand type has a case (exhaustiveness over the primitive kinds, sibling functions compared through one table); inside the case for width W only the W-wide accessors are used; the Go operator (resp. math/big method, bigdec helper) applied is the function's designated one with operands (left,right); every integer / and % is behind a `right == 0` test that returns the division-by-zero exception and every caller raises it; every shift is behind the negative-count test; the token→Word→Op→handler→family-function chain maps each operator to the handler of the same name. Level 'other': necessary structural conditions of Go-equivalence of operators, not program equivalence.",
		Note:      "Not covered: preprocessing/type checking, constant folding beyond its use of the same handlers, control flow, builtins and aliasing, string/rune conversion values, the arithmetic of Go itself (trusted). Known finding: doOpUneg/doOpUxor have no UntypedRuneType case (`const c = -'a'` panics in preprocessing; Go yields -97).",
		Technique: "R-EXH / R-SIB over switch case sets (go/types constants), typed AST matching inside case clauses, go/cfg gates for the zero-divisor and negative-shift guards, name-agreement tables over resolved constants",
		Ref:       "DESIGN.md §2 C04",
	})
	const ob = "gnovm/pkg/gnolang/op_binary.go"
	mutants("C04",
		Mutant{"wrong-width-accessor", ob, "lv.SetInt16(lv.GetInt16() - rv.GetInt16())", "lv.SetInt16(lv.GetInt16() - int16(rv.GetInt8()))", "accessor-width subAssign Int16Type"},
		Mutant{"wrong-operator", ob, "lv.SetUint32(lv.GetUint32() | rv.GetUint32())", "lv.SetUint32(lv.GetUint32() ^ rv.GetUint32())", "operator borAssign Uint32Type"},
		Mutant{"swapped-operands", ob, "lv.SetInt64(lv.GetInt64() - rv.GetInt64())", "lv.SetInt64(rv.GetInt64() - lv.GetInt64())", "operator subAssign Int64Type"},
		Mutant{"dropped-case", ob, "\tcase Uint16Type:\n\t\tlv.SetUint16(lv.GetUint16() &^ rv.GetUint16())\n", "", "kind-coverage bandnAssign Uint16Type"},
		Mutant{"zero-guard-weakened", ob, "if rv.GetInt8() == 0 {\n\t\t\treturn expt\n\t\t}\n\t\tlv.SetInt8(lv.GetInt8() % rv.GetInt8())", "if rv.GetInt8() == 0 && lv.GetInt8() != 0 {\n\t\t\treturn expt\n\t\t}\n\t\tlv.SetInt8(lv.GetInt8() % rv.GetInt8())", "div-zero-guard remAssign Int8Type"},
		Mutant{"zero-guard-returns-nil", ob, "if rv.GetUint64() == 0 {\n\t\t\treturn expt\n\t\t}\n\t\tlv.SetUint64(lv.GetUint64() / rv.GetUint64())", "if rv.GetUint64() == 0 {\n\t\t\treturn nil\n\t\t}\n\t\tlv.SetUint64(lv.GetUint64() / rv.GetUint64())", "div-zero-guard quoAssign Uint64Type"},
		Mutant{"cmp-operator", ob, "return (lv.GetUint8() >= rv.GetUint8())", "return (lv.GetUint8() > rv.GetUint8())", "operator isGeq Uint8Kind"},
		Mutant{"bigint-method", ob, "lb = big.NewInt(0).AndNot(lb, rv.GetBigInt())", "lb = big.NewInt(0).And(lb, rv.GetBigInt())", "operator bandnAssign UntypedBigintType"},
		Mutant{"neg-shift-check-dropped", ob, "func shrAssign(m *Machine, lv, rv *TypedValue) {\n\tif rv.Sign() < 0 {", "func shrAssign(m *Machine, lv, rv *TypedValue) {\n\tif rv.Sign() < 0 && m.Stage == StagePre {", "neg-shift-guard shrAssign"},
		Mutant{"handler-crossed", "gnovm/pkg/gnolang/op_assign.go", "// lv &^= rv\n\tbandnAssign(lv.TV, rv)", "// lv &^= rv\n\tbandAssign(lv.TV, rv)", "handler-family doOpBandnAssign"},
		Mutant{"word-op-crossed", "gnovm/pkg/gnolang/misc.go", "case LEQ:\n\t\treturn OpLeq", "case LEQ:\n\t\treturn OpLss", "word-op word2BinaryOp LEQ"},
		Mutant{"conv-wrong-source", "gnovm/pkg/gnolang/values_conversions.go", "x := int16(tv.GetInt8())", "x := int16(uint8(tv.GetInt8()))", "int-conv Int8Kind>Int16Kind"},
		Mutant{"caller-ignores-exception", "gnovm/pkg/gnolang/op_assign.go", "err := remAssign(lv.TV, rv)\n\tif err != nil {\n\t\tpanic(err)\n\t}", "err := remAssign(lv.TV, rv)\n\tif err != nil && debug {\n\t\tpanic(err)\n\t}", "div-zero-raised"},
	)
}

var c04Ints = []string{"Int", "Int8", "Int16", "Int32", "Int64", "Uint", "Uint8", "Uint16", "Uint32", "Uint64"}

// accessor suffix by case constant (Type value or Kind).
func c04Acc(cname string) string {
	base := strings.TrimSuffix(strings.TrimSuffix(cname, "Type"), "Kind")
	switch base {
	case "UntypedRune":
		return "Int32"
	case "UntypedBigint", "Bigint":
		return "BigInt"
	case "UntypedBigdec", "Bigdec":
		return "BigDec"
	case "UntypedString":
		return "String"
	case "UntypedBool":
		return "Bool"
	}
	return base // Int…Uint64, Float32, Float64, String, Bool, DataByte
}

// accessors with the identical Go type and storage (int and uint are 64-bit in Gno).
var c04SameRepr = map[string]string{"Int": "Int64", "Int64": "Int", "Uint": "Uint64", "Uint64": "Uint"}

func c04SameAcc(a, b string) bool { return a == b || c04SameRepr[a] == b }

var c04AccNames = func() map[string]bool {
	m := map[string]bool{}
	for _, a := range append(append([]string{}, c04Ints...), "Float32", "Float64", "String", "Bool", "BigInt", "BigDec", "DataByte") {
		m["Get"+a], m["Set"+a] = true, true
	}
	return m
}()

type c04Fam struct {
	fn     string
	tok    token.Token
	kind   string // "bin" | "shift" | "cmp" | "un" | "incdec"
	big    string // math/big.(*Int) method ("" = none)
	bigdec string // bigdec helper ("" = none)
	extra  []string
	lv, rv string
}

const c04G = gvaGno + "."

var c04Fams = []c04Fam{
	{c04G + "addAssign", token.ADD, "bin", "Add", "bigdecAdd", []string{"Float32Type", "Float64Type", "StringType", "UntypedStringType"}, "lv", "rv"},
	{c04G + "subAssign", token.SUB, "bin", "Sub", "bigdecSub", []string{"Float32Type", "Float64Type"}, "lv", "rv"},
	{c04G + "mulAssign", token.MUL, "bin", "Mul", "bigdecMul", []string{"Float32Type", "Float64Type"}, "lv", "rv"},
	{c04G + "quoAssign", token.QUO, "bin", "Quo", "bigdecQuo", []string{"Float32Type", "Float64Type"}, "lv", "rv"},
	{c04G + "remAssign", token.REM, "bin", "Rem", "", nil, "lv", "rv"},
	{c04G + "bandAssign", token.AND, "bin", "And", "", nil, "lv", "rv"},
	{c04G + "bandnAssign", token.AND_NOT, "bin", "AndNot", "", nil, "lv", "rv"},
	{c04G + "borAssign", token.OR, "bin", "Or", "", nil, "lv", "rv"},
	{c04G + "xorAssign", token.XOR, "bin", "Xor", "", nil, "lv", "rv"},
	{c04G + "shlAssign", token.SHL, "shift", "Lsh", "", nil, "lv", "rv"},
	{c04G + "shrAssign", token.SHR, "shift", "Rsh", "", nil, "lv", "rv"},
	{c04G + "isEql", token.EQL, "cmp", "Cmp", "bigdecCmp", []string{"BoolKind"}, "lv", "rv"},
	{c04G + "isLss", token.LSS, "cmp", "Cmp", "bigdecCmp", nil, "lv", "rv"},
	{c04G + "isLeq", token.LEQ, "cmp", "Cmp", "bigdecCmp", nil, "lv", "rv"},
	{c04G + "isGtr", token.GTR, "cmp", "Cmp", "bigdecCmp", nil, "lv", "rv"},
	{c04G + "isGeq", token.GEQ, "cmp", "Cmp", "bigdecCmp", nil, "lv", "rv"},
	{c04G + "(*Machine).doOpUneg", token.SUB, "un", "Neg", "", []string{"Float32Type", "Float64Type", "UntypedBigdecType"}, "xv", ""},
	{c04G + "(*Machine).doOpUxor", token.XOR, "un", "Not", "", nil, "xv", ""},
	{c04G + "(*Machine).doOpInc", token.ADD, "incdec", "Add", "bigdecAdd", []string{"Float32Type", "Float64Type", "DataByteType"}, "lv", ""},
	{c04G + "(*Machine).doOpDec", token.SUB, "incdec", "Sub", "bigdecSub", []string{"Float32Type", "Float64Type", "DataByteType"}, "lv", ""},
}

func (fm c04Fam) short() string { return fm.fn[strings.LastIndexByte(fm.fn, '.')+1:] }

// required case constants of a family member.
func (fm c04Fam) required() []string {
	var out []string
	suffix := "Type"
	if fm.kind == "cmp" {
		suffix = "Kind"
	}
	for _, i := range c04Ints {
		out = append(out, i+suffix)
	}
	switch fm.kind {
	case "bin", "shift":
		out = append(out, "DataByteType", "UntypedRuneType", "UntypedBigintType")
		if fm.bigdec != "" {
			out = append(out, "UntypedBigdecType")
		}
	case "cmp":
		out = append(out, "Float32Kind", "Float64Kind", "StringKind", "BigintKind", "BigdecKind")
	case "un":
		// Go folds unary -/^ over untyped rune constants (-'a' == -97); the binary families list UntypedRuneType next to Int32Type
		out = append(out, "UntypedRuneType", "UntypedBigintType")
	case "incdec":
		out = append(out, "UntypedBigintType", "UntypedBigdecType")
	}
	return append(out, fm.extra...)
}

func c04(c *engine.Ctx) {
	c.Explain = "Decides the completeness and internal consistency of the VM's operator dispatch: kind coverage of every operator-family function (siblings share one requirement table), accessor width agreement inside each case, designated operator / math/big method / bigdec helper with (left,right) operand order, zero-divisor guard returning the exception before every integer / and % and its propagation by all four callers, negative-shift guard before every shift, name agreement of the token→Word→Op→handler→family chain, and accessor/conversion agreement of the 100 integer×integer conversions of ConvertTo. Not covered: preprocessing, constant typing, control flow, builtins, aliasing, i.e. program equivalence as such."
	p := c.Load(gvaGno)
	if p == nil {
		return
	}
	nCov, nAcc, nOp := 0, 0, 0
	t0 := time.Now()
	defer func() {
		if gvaDump {
			fmt.Println("c04 total", time.Since(t0))
		}
	}()
	for _, fm := range c04Fams {
		if gvaDump {
			fmt.Println("c04 fam", fm.short(), time.Since(t0))
		}
		f := c.MustFunc(fm.fn)
		if f == nil {
			continue
		}
		sw := c04FamSwitch(f, fm)
		if sw == nil {
			c.Undecided("kind-coverage", fm.short(), "operand-type switch not found")
			continue
		}
		for _, req := range fm.required() {
			nCov++
			cc := sw.Consts[req]
			c.Check("kind-coverage", fm.short()+" "+req, sw.Stmt.Pos(), cc != nil, "no case for "+req+" (sibling operators have one; the operator would panic 'not defined' where Go computes a value)")
		}
		// per clause rules
		done := map[*ast.CaseClause]bool{}
		for _, cname := range engine.SortedKeys(sw.Consts) {
			cc := sw.Consts[cname]
			if done[cc] {
				continue
			}
			done[cc] = true
			acc := c04Acc(cname)
			if !c04AccNames["Get"+acc] {
				continue // composite kinds (isEql arrays, structs …)
			}
			key := fm.short() + " " + cname
			// accessor width
			nAcc++
			okA, whyA := c04AccessorWidth(f, cc, acc)
			c.Check("accessor-width", key, cc.Pos(), okA, whyA)
			if strings.HasPrefix(acc, "Float") {
				continue // float cases are decided by C05's dispatch table
			}
			if acc == "Bool" && fm.kind == "cmp" || acc == "String" && fm.kind == "bin" {
				// handled below like the integer cases
			}
			nOp++
			okO, whyO := c04Operator(f, cc, fm, acc)
			c.Check("operator", key, cc.Pos(), okO, whyO)
		}
		c.Check("default-panics", fm.short(), sw.Stmt.Pos(), sw.HasDefault && f.ClausePanics(sw.Default), "the operand-type switch must end in a panicking default (an unknown type must not fall through silently)")
	}
	c.Floor("kind-coverage", nCov, 250)
	c.Floor("accessor-width", nAcc, 230)
	c.Floor("operator", nOp, 200)

	for i, step := range []func(*engine.Ctx, *engine.Prog){c04DivZero, c04NegShift, c04Chain, c04IntConv} {
		step(c, p)
		if gvaDump {
			fmt.Println("c04 step", i, time.Since(t0))
		}
	}
}

// c04FamSwitch finds the switch over baseOf(x.T) / x.T.Kind() with the most cases.
func c04FamSwitch(f *engine.Fn, fm c04Fam) *engine.SwitchInfo {
	want := "Int8Type"
	if fm.kind == "cmp" {
		want = "Int8Kind"
	}
	var best *engine.SwitchInfo
	for _, s := range f.Switches() {
		if s.Consts == nil {
			continue
		}
		if _, ok := s.Consts[want]; !ok && len(s.Consts) < 8 {
			continue
		}
		if best == nil || len(s.Consts) > len(best.Consts) {
			best = s
		}
	}
	return best
}

func c04AccessorWidth(f *engine.Fn, cc *ast.CaseClause, acc string) (bool, string) {
	info := f.Info()
	allowed := map[string]bool{"Get" + acc: true, "Set" + acc: true}
	if eq := c04SameRepr[acc]; eq != "" {
		allowed["Get"+eq], allowed["Set"+eq] = true, true
	}
	if acc == "DataByte" {
		allowed["GetUint8"] = true // the right operand of a DataByte op is a uint8 value
	}
	bad := ""
	n := 0
	gvaWalkAll(cc, func(nd ast.Node) bool {
		if call, ok := nd.(*ast.CallExpr); ok {
			if name, _ := gvaTVAccessor(info, call); c04AccNames[name] {
				n++
				if !allowed[name] {
					bad = name
				}
			}
		}
		return true
	})
	if bad != "" {
		return false, "case for " + acc + " uses accessor " + bad + " (value read or written at the wrong width)"
	}
	return true, fmt.Sprintf("%d accessor calls, all of width %s", n, acc)
}

// c04Origin resolves which operand (object) an expression is derived from:
// accessor receivers, selector/assert chains, and locals defined in the clause.
func c04Origin(f *engine.Fn, cc *ast.CaseClause, e ast.Expr, depth int) types.Object {
	info := f.Info()
	e = ast.Unparen(e)
	// conversions int64(x.GetInt8()) etc.
	if call, ok := e.(*ast.CallExpr); ok && len(call.Args) == 1 && info.Types[call.Fun].IsType() {
		return c04Origin(f, cc, call.Args[0], depth+1)
	}
	obj := gvaRootObj(info, e)
	if obj == nil || depth >= 4 {
		return obj
	}
	if _, isVar := obj.(*types.Var); !isVar || obj.Name() == "lv" || obj.Name() == "rv" || obj.Name() == "xv" {
		return obj // the operand variables themselves are never traced further
	}
	// a local defined (:=) from another expression: follow it
	var rhs ast.Expr
	find := func(n ast.Node) bool {
		if as, ok := n.(*ast.AssignStmt); ok && as.Tok == token.DEFINE && len(as.Lhs) == len(as.Rhs) {
			for i, l := range as.Lhs {
				if id, ok := l.(*ast.Ident); ok && info.Defs[id] == obj && rhs == nil {
					rhs = as.Rhs[i]
				}
			}
		}
		return true
	}
	engine.InspectBody(f, func(n ast.Node) { find(n) })
	if rhs != nil {
		if o := c04Origin(f, cc, rhs, depth+1); o != nil {
			return o
		}
	}
	return obj
}

func c04Named(o types.Object, name string) bool { return o != nil && o.Name() == name }

// c04Operator checks the operation performed in one case clause.
func c04Operator(f *engine.Fn, cc *ast.CaseClause, fm c04Fam, acc string) (bool, string) {
	info := f.Info()
	isConstOne := func(e ast.Expr) bool {
		tv, ok := info.Types[e]
		return ok && tv.Value != nil && tv.Value.ExactString() == "1"
	}
	isConstZero := func(e ast.Expr) bool {
		tv, ok := info.Types[e]
		return ok && tv.Value != nil && tv.Value.ExactString() == "0"
	}
	from := func(e ast.Expr, who string) bool { return c04Named(c04Origin(f, cc, e, 0), who) }

	switch acc {
	case "BigInt":
		// exactly one arithmetic math/big.(*Int) method call, the designated one
		var ops []*ast.CallExpr
		var names []string
		arith := gvaSet("Add", "Sub", "Mul", "Quo", "Rem", "Div", "Mod", "And", "AndNot", "Or", "Xor", "Lsh", "Rsh", "Neg", "Not", "Cmp", "CmpAbs", "Exp", "QuoRem", "DivMod")
		gvaWalkClause(cc, func(n ast.Node) bool {
			if call, ok := n.(*ast.CallExpr); ok {
				if _, cn := gvaCallee(info, call); strings.HasPrefix(cn, "math/big.(*Int).") && arith[cn[len("math/big.(*Int)."):]] {
					ops = append(ops, call)
					names = append(names, cn[len("math/big.(*Int)."):])
				}
			}
			return true
		})
		if len(ops) != 1 {
			return false, fmt.Sprintf("expected exactly one math/big operation, found %v", names)
		}
		if names[0] != fm.big {
			return false, "applies big.Int." + names[0] + ", designated is big.Int." + fm.big
		}
		call := ops[0]
		switch fm.kind {
		case "cmp":
			recv := call.Fun.(*ast.SelectorExpr).X
			if !from(recv, fm.lv) || !from(call.Args[0], fm.rv) {
				return false, "Cmp must be left.Cmp(right)"
			}
			return c04CmpAgainstZero(f, cc, call, fm.tok)
		case "un":
			if !from(call.Args[0], fm.lv) {
				return false, "operand is not the value under the operator"
			}
		case "incdec":
			if !from(call.Args[0], fm.lv) {
				return false, "left operand is not the incremented value"
			}
			if one, cn := gvaCallee(info, call.Args[1]); cn != "math/big.NewInt" || !isConstOne(one.Args[0]) {
				return false, "step must be big.NewInt(1)"
			}
		case "shift":
			if !from(call.Args[0], fm.lv) || !from(call.Args[1], fm.rv) {
				return false, "operands must be (left, shift count from right)"
			}
		default:
			if !from(call.Args[0], fm.lv) || !from(call.Args[1], fm.rv) {
				return false, "operands must be (left, right)"
			}
		}
		return true, "big.Int." + fm.big + " on (left,right)"
	case "BigDec":
		if fm.kind == "un" {
			return true, "bigdec negation (two representations) not analysed"
		}
		var ops []*ast.CallExpr
		var names []string
		gvaWalkClause(cc, func(n ast.Node) bool {
			if call, ok := n.(*ast.CallExpr); ok {
				if _, cn := gvaCallee(info, call); strings.HasPrefix(cn, c04G+"bigdec") && cn != c04G+"bigdecValueErrString" {
					ops = append(ops, call)
					names = append(names, cn[len(c04G):])
				}
			}
			return true
		})
		if len(ops) != 1 || names[0] != fm.bigdec {
			return false, fmt.Sprintf("expected exactly %s, found %v", fm.bigdec, names)
		}
		call := ops[0]
		if !from(call.Args[0], fm.lv) {
			return false, "left operand of " + fm.bigdec + " is not the left value"
		}
		if fm.kind == "cmp" {
			if !from(call.Args[1], fm.rv) {
				return false, "right operand of bigdecCmp is not the right value"
			}
			return c04CmpAgainstZero(f, cc, call, fm.tok)
		}
		if fm.kind == "bin" && !from(call.Args[1], fm.rv) {
			return false, "right operand of " + fm.bigdec + " is not the right value"
		}
		return true, fm.bigdec + " on (left,right)"
	}

	// primitive cases: find the Go operator expressions over operand-derived values
	var cands []ast.Expr
	gvaWalkClause(cc, func(n ast.Node) bool {
		switch x := n.(type) {
		case *ast.BinaryExpr:
			switch x.Op {
			case token.LAND, token.LOR:
				return true
			}
			if tv, ok := info.Types[x]; ok && tv.Value != nil {
				return false
			}
			l := c04Origin(f, cc, x.X, 0)
			if c04Named(l, fm.lv) || (fm.rv != "" && c04Named(l, fm.rv)) {
				// comparisons inside guards (rv.GetX() == 0, m.Stage == …) are not the operation
				if fm.kind != "cmp" && (x.Op == token.EQL || x.Op == token.NEQ) {
					return true
				}
				cands = append(cands, x)
				return false
			}
		case *ast.UnaryExpr:
			if x.Op == token.SUB || x.Op == token.XOR || x.Op == token.NOT {
				if c04Named(c04Origin(f, cc, x.X, 0), fm.lv) {
					cands = append(cands, x)
					return false
				}
			}
		}
		return true
	})
	if len(cands) != 1 {
		return false, fmt.Sprintf("expected exactly one operator expression over the operands, found %d", len(cands))
	}
	switch fm.kind {
	case "un":
		u, ok := cands[0].(*ast.UnaryExpr)
		if !ok || u.Op != fm.tok {
			return false, "operator differs from the designated unary " + fm.tok.String()
		}
	default:
		b, ok := cands[0].(*ast.BinaryExpr)
		if !ok {
			return false, "unary operator in a binary operation"
		}
		if b.Op != fm.tok {
			return false, "applies `" + b.Op.String() + "`, designated operator is `" + fm.tok.String() + "`"
		}
		if !from(b.X, fm.lv) {
			return false, "left operand of `" + b.Op.String() + "` is not the left value"
		}
		switch fm.kind {
		case "incdec":
			if !isConstOne(b.Y) {
				return false, "step is not the constant 1"
			}
		default:
			if !from(b.Y, fm.rv) {
				return false, "right operand of `" + b.Op.String() + "` is not the right value"
			}
		}
	}
	// destination: cmp returns it, others store it into the left value with Set<acc>
	op := cands[0]
	if fm.kind == "cmp" {
		okRet := false
		for _, st := range cc.Body {
			if r, ok := st.(*ast.ReturnStmt); ok && len(r.Results) == 1 && ast.Unparen(r.Results[0]) == op {
				okRet = true
			}
		}
		if !okRet {
			return false, "comparison result is not returned as is"
		}
		return true, "returns left " + fm.tok.String() + " right"
	}
	if acc == "String" {
		return true, "string concatenation left + right"
	}
	stored := false
	gvaWalkClause(cc, func(n ast.Node) bool {
		if call, ok := n.(*ast.CallExpr); ok {
			if name, recv := gvaTVAccessor(info, call); strings.HasPrefix(name, "Set") && c04SameAcc(name[3:], acc) && len(call.Args) == 1 && ast.Unparen(call.Args[0]) == op {
				if c04Named(gvaRootObj(info, recv), fm.lv) {
					stored = true
				}
			}
		}
		return true
	})
	if !stored {
		return false, "result is not stored into the left value with Set" + acc
	}
	_ = isConstZero
	return true, "left.Set" + acc + "(left " + fm.tok.String() + " right)"
}

// c04CmpAgainstZero: the (three-way) compare call is used as `call <tok> 0` and returned.
func c04CmpAgainstZero(f *engine.Fn, cc *ast.CaseClause, call *ast.CallExpr, tok token.Token) (bool, string) {
	info := f.Info()
	for _, st := range cc.Body {
		r, ok := st.(*ast.ReturnStmt)
		if !ok || len(r.Results) != 1 {
			continue
		}
		b, ok := ast.Unparen(r.Results[0]).(*ast.BinaryExpr)
		if !ok || ast.Unparen(b.X) != ast.Expr(call) {
			continue
		}
		tv := info.Types[b.Y]
		if tv.Value == nil || tv.Value.ExactString() != "0" {
			return false, "three-way result compared with something other than 0"
		}
		if b.Op != tok {
			return false, "three-way result tested with `" + b.Op.String() + " 0`, designated `" + tok.String() + " 0`"
		}
		return true, "returns cmp(left,right) " + tok.String() + " 0"
	}
	return false, "three-way result is not returned as `cmp(left,right) " + tok.String() + " 0`"
}

// ---- division by zero ----

func c04DivZero(c *engine.Ctx, p *engine.Prog) {
	n := 0
	for _, fname := range []string{"quoAssign", "remAssign"} {
		f := c.MustFunc(c04G + fname)
		if f == nil {
			continue
		}
		info := f.Info()
		g := f.Graph()
		var fm c04Fam
		for _, x := range c04Fams {
			if x.fn == c04G+fname {
				fm = x
			}
		}
		sw := c04FamSwitch(f, fm)
		if sw == nil {
			continue
		}
		done := map[*ast.CaseClause]bool{}
		for _, cname := range engine.SortedKeys(sw.Consts) {
			cc := sw.Consts[cname]
			acc := c04Acc(cname)
			if done[cc] || strings.HasPrefix(acc, "Float") || !c04AccNames["Get"+acc] {
				continue
			}
			done[cc] = true
			key := fname + " " + cname
			// the dividing operation
			var target ast.Node
			gvaWalkClause(cc, func(nd ast.Node) bool {
				switch x := nd.(type) {
				case *ast.BinaryExpr:
					if x.Op == token.QUO || x.Op == token.REM {
						target = x
					}
				case *ast.CallExpr:
					if _, cn := gvaCallee(info, x); cn == "math/big.(*Int).Quo" || cn == "math/big.(*Int).Rem" || cn == c04G+"bigdecQuo" {
						target = x
					}
				}
				return true
			})
			n++
			if target == nil {
				c.Check("div-zero-guard", key, cc.Pos(), false, "no dividing operation found in the case")
				continue
			}
			site := f.SiteOf(target)
			if site == nil {
				c.Undecided("div-zero-guard", key, "dividing operation not located in the CFG")
				continue
			}
			ok, why := false, "no `right == 0` test returning the exception gates the division"
			for _, gt := range g.Gates(site) {
				b, isb := ast.Unparen(gt.Cond).(*ast.BinaryExpr)
				if !isb {
					continue
				}
				op := b.Op
				if gt.OnTrue {
					op = engine.Negate(op)
				}
				if op != token.EQL { // division happens on the branch where the test `== 0` failed
					continue
				}
				if tv := info.Types[b.Y]; tv.Value == nil || tv.Value.ExactString() != "0" {
					continue
				}
				// X: rv.Get<acc>() or rv.…Sign() / local from rv
				x := ast.Unparen(b.X)
				zeroOf := ""
				if name, recv := gvaTVAccessor(info, x); name != "" {
					if c04Named(gvaRootObj(info, recv), "rv") {
						zeroOf = name
					}
				} else if call, cn := gvaCallee(info, x); call != nil && (cn == "math/big.(*Int).Sign" || cn == c04G+"(BigdecValue).Sign") {
					if c04Named(c04Origin(f, cc, call.Fun.(*ast.SelectorExpr).X, 0), "rv") {
						zeroOf = "Sign"
					}
				}
				wantAcc := "Get" + acc
				if acc == "DataByte" {
					wantAcc = "GetUint8"
				}
				if zeroOf == "" || (zeroOf != "Sign" && zeroOf != wantAcc) {
					why = "zero test reads `" + engine.ExprString(b.X) + "`, not the right operand at width " + acc
					continue
				}
				if len(engine.Atoms(gt.Cond)) != 1 {
					why = "zero test combined with another condition"
					continue
				}
				// failing branch returns a non-nil exception
				fail := gt.Block.Succs[0]
				if gt.OnTrue {
					fail = gt.Block.Succs[1]
				}
				ret := fail.Return()
				if ret == nil || len(ret.Results) != 1 || isNil(ret.Results[0]) {
					why = "the zero branch does not return the division-by-zero exception"
					continue
				}
				ok, why = true, "division reached only when "+engine.ExprString(b.X)+" != 0; zero branch returns "+engine.ExprString(ret.Results[0])
			}
			c.Check("div-zero-guard", key, target.Pos(), ok, why)
		}
		// expt is the division-by-zero runtime error
		found := false
		engine.InspectBody(f, func(nd ast.Node) {
			if bl, ok := nd.(*ast.BasicLit); ok && bl.Kind == token.STRING && strings.Contains(bl.Value, "division by zero") {
				found = true
			}
		})
		c.Check("div-zero-guard", fname+" message", f.Pos(), found, "the exception value must be the runtime error 'division by zero'")
	}
	c.Floor("div-zero-guard", n, 25)

	// every caller raises the returned exception
	nc := 0
	for _, callee := range []string{"quoAssign", "remAssign"} {
		for _, r := range p.RefsToFunc(c04G + callee) {
			if r.Fn == nil {
				continue
			}
			nc++
			f := r.Fn
			key := f.Name[strings.LastIndexByte(f.Name, '.')+1:] + " -> " + callee
			if !r.IsCall {
				c.Check("div-zero-raised", key, r.Ident.Pos(), false, "function value taken; result handling unknown")
				continue
			}
			ok, why := c04Raises(f, r.Ident)
			c.Check("div-zero-raised", key, r.Ident.Pos(), ok, why)
		}
	}
	c.Floor("div-zero-raised", nc, 4)
}

// c04Raises: `err := callee(…)` followed by `if err != nil { panic(err) }` with a sole condition.
func c04Raises(f *engine.Fn, callee *ast.Ident) (bool, string) {
	info := f.Info()
	var errObj types.Object
	var asg *ast.AssignStmt
	engine.InspectBody(f, func(n ast.Node) {
		as, ok := n.(*ast.AssignStmt)
		if !ok || len(as.Rhs) != 1 || len(as.Lhs) != 1 {
			return
		}
		if call, ok := as.Rhs[0].(*ast.CallExpr); ok && ast.Unparen(call.Fun) == ast.Expr(callee) {
			errObj = engine.ObjOf(info, as.Lhs[0])
			asg = as
		}
	})
	if errObj == nil {
		return false, "result of the division helper is not bound to a variable"
	}
	site := f.SiteOf(asg)
	g := f.Graph()
	ok, why := false, "no `if err != nil { panic(err) }` follows the call"
	engine.InspectBody(f, func(n ast.Node) {
		is, isIf := n.(*ast.IfStmt)
		if !isIf || is.Pos() < asg.End() {
			return
		}
		b, isb := ast.Unparen(is.Cond).(*ast.BinaryExpr)
		if !isb || b.Op != token.NEQ || engine.ObjOf(info, b.X) != errObj || !isNil(b.Y) {
			if engine.Mentions(info, is.Cond, errObj) {
				why = "exception test is weakened: `" + engine.ExprString(is.Cond) + "`"
			}
			return
		}
		if len(is.Body.List) == 0 {
			return
		}
		es, isE := is.Body.List[len(is.Body.List)-1].(*ast.ExprStmt)
		if !isE {
			return
		}
		call, isC := es.X.(*ast.CallExpr)
		if !isC || f.Prog.MayReturn(info, call) {
			why = "the non-nil branch does not panic"
			return
		}
		if len(call.Args) != 1 || engine.ObjOf(info, call.Args[0]) != errObj {
			why = "the panic does not carry the returned exception"
			return
		}
		if st := f.SiteOf(is.Cond); st != nil && site != nil && g.Dominates(site, st) {
			ok, why = true, "exception returned by the helper is raised"
		}
	})
	return ok, why
}

// ---- negative shift ----

func c04NegShift(c *engine.Ctx, p *engine.Prog) {
	for _, fname := range []string{"shlAssign", "shrAssign"} {
		f := c.MustFunc(c04G + fname)
		if f == nil {
			continue
		}
		info := f.Info()
		g := f.Graph()
		var targets []ast.Node
		engine.InspectBody(f, func(nd ast.Node) {
			switch x := nd.(type) {
			case *ast.BinaryExpr:
				if (x.Op == token.SHL || x.Op == token.SHR) && info.Types[x].Value == nil {
					targets = append(targets, x)
				}
			case *ast.CallExpr:
				if _, cn := gvaCallee(info, x); cn == "math/big.(*Int).Lsh" || cn == "math/big.(*Int).Rsh" {
					targets = append(targets, x)
				}
			}
		})
		c.Floor("neg-shift-guard "+fname, len(targets), 12)
		bad := ""
		for _, t := range targets {
			site := f.SiteOf(t)
			if site == nil {
				bad = "shift not located in CFG"
				break
			}
			ok := false
			for _, gt := range g.Gates(site) {
				b, isb := ast.Unparen(gt.Cond).(*ast.BinaryExpr)
				if !isb || gt.OnTrue || b.Op != token.LSS {
					continue
				}
				call, cn := gvaCallee(info, b.X)
				if cn != c04G+"(*TypedValue).Sign" || !c04Named(gvaRootObj(info, call.Fun.(*ast.SelectorExpr).X), "rv") {
					continue
				}
				if tv := info.Types[b.Y]; tv.Value == nil || tv.Value.ExactString() != "0" {
					continue
				}
				ok = true
			}
			if !ok {
				bad = "shift at " + p.Pos(t.Pos()) + " is reachable without passing a sole `rv.Sign() < 0` test that panics"
				break
			}
		}
		c.Check("neg-shift-guard", fname, f.Pos(), bad == "", bad)
	}
}

// ---- token → Word → Op → handler → family ----

var c04WordOp = map[string]map[string]string{
	"word2BinaryOp": {"ADD": "OpAdd", "SUB": "OpSub", "MUL": "OpMul", "QUO": "OpQuo", "REM": "OpRem", "BAND": "OpBand", "BOR": "OpBor", "XOR": "OpXor",
		"SHL": "OpShl", "SHR": "OpShr", "BAND_NOT": "OpBandn", "LAND": "OpLand", "LOR": "OpLor", "EQL": "OpEql", "LSS": "OpLss", "GTR": "OpGtr", "NEQ": "OpNeq", "LEQ": "OpLeq", "GEQ": "OpGeq"},
	"word2UnaryOp": {"ADD": "OpUpos", "SUB": "OpUneg", "NOT": "OpUnot", "XOR": "OpUxor"},
}

var c04AssignOp = map[string]string{"ASSIGN": "OpAssign", "ADD_ASSIGN": "OpAddAssign", "SUB_ASSIGN": "OpSubAssign", "MUL_ASSIGN": "OpMulAssign", "QUO_ASSIGN": "OpQuoAssign",
	"REM_ASSIGN": "OpRemAssign", "BAND_ASSIGN": "OpBandAssign", "BOR_ASSIGN": "OpBorAssign", "XOR_ASSIGN": "OpXorAssign", "SHL_ASSIGN": "OpShlAssign", "SHR_ASSIGN": "OpShrAssign",
	"BAND_NOT_ASSIGN": "OpBandnAssign", "DEFINE": "OpDefine"}

var c04TokWord = map[string]string{"ADD": "ADD", "SUB": "SUB", "MUL": "MUL", "QUO": "QUO", "REM": "REM", "AND": "BAND", "OR": "BOR", "XOR": "XOR", "SHL": "SHL", "SHR": "SHR", "AND_NOT": "BAND_NOT",
	"ADD_ASSIGN": "ADD_ASSIGN", "SUB_ASSIGN": "SUB_ASSIGN", "MUL_ASSIGN": "MUL_ASSIGN", "QUO_ASSIGN": "QUO_ASSIGN", "REM_ASSIGN": "REM_ASSIGN", "AND_ASSIGN": "BAND_ASSIGN", "OR_ASSIGN": "BOR_ASSIGN",
	"XOR_ASSIGN": "XOR_ASSIGN", "SHL_ASSIGN": "SHL_ASSIGN", "SHR_ASSIGN": "SHR_ASSIGN", "AND_NOT_ASSIGN": "BAND_NOT_ASSIGN", "LAND": "LAND", "LOR": "LOR", "INC": "INC", "DEC": "DEC",
	"EQL": "EQL", "LSS": "LSS", "GTR": "GTR", "ASSIGN": "ASSIGN", "NOT": "NOT", "NEQ": "NEQ", "LEQ": "LEQ", "GEQ": "GEQ", "DEFINE": "DEFINE"}

// handler → family function it must call (exactly one family call).
var c04Handler = map[string]string{
	"doOpAdd": "addAssign", "doOpSub": "subAssign", "doOpMul": "mulAssign", "doOpQuo": "quoAssign", "doOpRem": "remAssign",
	"doOpBand": "bandAssign", "doOpBandn": "bandnAssign", "doOpBor": "borAssign", "doOpXor": "xorAssign", "doOpShl": "shlAssign", "doOpShr": "shrAssign",
	"doOpAddAssign": "addAssign", "doOpSubAssign": "subAssign", "doOpMulAssign": "mulAssign", "doOpQuoAssign": "quoAssign", "doOpRemAssign": "remAssign",
	"doOpBandAssign": "bandAssign", "doOpBandnAssign": "bandnAssign", "doOpBorAssign": "borAssign", "doOpXorAssign": "xorAssign", "doOpShlAssign": "shlAssign", "doOpShrAssign": "shrAssign",
	"doOpEql": "isEql", "doOpNeq": "isEql", "doOpLss": "isLss", "doOpLeq": "isLeq", "doOpGtr": "isGtr", "doOpGeq": "isGeq",
}

// opcodes whose handler is deliberately shared (the statement executor re-enters on sticky ops).
var c04SharedHandler = map[string]string{"OpBody": "doOpExec", "OpForLoop": "doOpExec", "OpRangeIter": "doOpExec", "OpRangeIterArrayPtr": "doOpExec",
	"OpRangeIterMap": "doOpExec", "OpRangeIterString": "doOpExec"}

func c04Chain(c *engine.Ctx, p *engine.Prog) {
	// Word → Op
	for fname, table := range c04WordOp {
		f := c.MustFunc(c04G + fname)
		if f == nil {
			continue
		}
		sw := gvaMainSwitch(f, nil)
		if sw == nil {
			c.Undecided("word-op", fname, "switch not found")
			continue
		}
		n := 0
		for _, w := range engine.SortedKeys(table) {
			n++
			c.Check("word-op", fname+" "+w, sw.Stmt.Pos(), c04ClauseYields(f, sw.Consts[w], table[w], "return"), "case "+w+" must return "+table[w])
		}
		for _, w := range engine.SortedKeys(sw.Consts) {
			if _, ok := table[w]; !ok && !f.ClausePanics(sw.Consts[w]) {
				c.Check("word-op", fname+" "+w, sw.Consts[w].Pos(), false, "untabled operator word mapped to an Op")
			}
		}
		c.Floor("word-op "+fname, n, len(table))
	}
	// assign-op Word → Op in doOpExec
	if f := c.MustFunc(c04G + "(*Machine).doOpExec"); f != nil {
		var sw *engine.SwitchInfo
		for _, s := range f.Switches() {
			if s.Consts != nil && s.Consts["ADD_ASSIGN"] != nil && s.Consts["DEFINE"] != nil {
				sw = s
			}
		}
		if sw == nil {
			c.Undecided("word-op", "doOpExec", "assign-operator switch not found")
		} else {
			n := 0
			for _, w := range engine.SortedKeys(c04AssignOp) {
				n++
				c.Check("word-op", "doOpExec "+w, sw.Stmt.Pos(), c04ClauseYields(f, sw.Consts[w], c04AssignOp[w], "push"), "case "+w+" must push "+c04AssignOp[w])
			}
			c.Floor("word-op doOpExec", n, 13)
		}
	}
	// token → Word
	{
		n := 0
		var lit *ast.CompositeLit
		var info *types.Info
		if pk := p.Pkg(gvaGno); pk != nil {
			info = pk.TypesInfo
			for _, file := range pk.Syntax {
				for _, d := range file.Decls {
					gd, ok := d.(*ast.GenDecl)
					if !ok {
						continue
					}
					for _, s := range gd.Specs {
						if vs, ok := s.(*ast.ValueSpec); ok && len(vs.Names) == 1 && vs.Names[0].Name == "token2word" && len(vs.Values) == 1 {
							lit, _ = vs.Values[0].(*ast.CompositeLit)
						}
					}
				}
			}
		}
		if lit == nil {
			c.Undecided("token-word", "token2word", "map literal not found")
		} else {
			got := map[string]string{}
			for _, el := range lit.Elts {
				kv, ok := el.(*ast.KeyValueExpr)
				if !ok {
					continue
				}
				k, _ := engine.ObjOf(info, kv.Key).(*types.Const)
				v, _ := engine.ObjOf(info, kv.Value).(*types.Const)
				if k != nil && v != nil {
					got[k.Name()] = v.Name()
				}
			}
			for _, t := range engine.SortedKeys(c04TokWord) {
				n++
				c.Check("token-word", "token."+t, lit.Pos(), got[t] == c04TokWord[t], "token."+t+" maps to `"+got[t]+"`, want "+c04TokWord[t])
			}
			c.Floor("token-word", n, 35)
		}
	}
	// Op → handler in Machine.Run
	if f := c.MustFunc(c04G + "(*Machine).runOnce"); f != nil {
		sw := gvaMainSwitch(f, nil)
		n := 0
		if sw == nil {
			c.Undecided("op-handler", "runOnce", "opcode switch not found")
		} else {
			for _, op := range engine.SortedKeys(sw.Consts) {
				cc := sw.Consts[op]
				if !strings.HasPrefix(op, "Op") {
					continue
				}
				var handlers []string
				gvaWalkClause(cc, func(nd ast.Node) bool {
					if call, ok := nd.(*ast.CallExpr); ok {
						if _, cn := gvaCallee(f.Info(), call); strings.HasPrefix(cn, c04G+"(*Machine).doOp") {
							handlers = append(handlers, cn[len(c04G+"(*Machine)."):])
						}
					}
					return true
				})
				if len(handlers) == 0 {
					continue // control ops handled inline (OpHalt, OpNoop, …)
				}
				n++
				want := "do" + op
				if alt := c04SharedHandler[op]; alt != "" {
					want = alt
				}
				ok := len(handlers) == 1 && handlers[0] == want && len(cc.List) == 1
				c.Check("op-handler", op, cc.Pos(), ok, fmt.Sprintf("case %s calls %v, want exactly %s", op, handlers, want))
			}
			c.Floor("op-handler", n, 85)
		}
	}
	// handler → family
	n := 0
	fam := map[string]bool{}
	for _, v := range c04Handler {
		fam[c04G+v] = true
	}
	for _, h := range engine.SortedKeys(c04Handler) {
		f := c.MustFunc(c04G + "(*Machine)." + h)
		if f == nil {
			continue
		}
		n++
		var calls []string
		for _, s := range f.Calls() {
			if fam[s.CalleeName()] {
				calls = append(calls, s.CalleeName()[len(c04G):])
			}
		}
		ok := len(calls) == 1 && calls[0] == c04Handler[h]
		why := fmt.Sprintf("calls %v, want exactly %s", calls, c04Handler[h])
		if ok {
			// operand order: (… left, right) are passed in that order
			for _, s := range f.CallsTo(c04G + c04Handler[h]) {
				li, ri := -1, -1
				if fo, isF := s.Callee.(*types.Func); isF {
					ps := fo.Type().(*types.Signature).Params()
					for i := 0; i < ps.Len(); i++ {
						switch ps.At(i).Name() {
						case "lv":
							li = i
						case "rv":
							ri = i
						}
					}
				}
				if li < 0 || ri < 0 || ri >= len(s.Call.Args) {
					ok, why = false, "family function has no (lv, rv) parameters"
					continue
				}
				lo, ro := gvaRootObj(f.Info(), s.Call.Args[li]), gvaRootObj(f.Info(), s.Call.Args[ri])
				if !c04Named(lo, "lv") || !c04Named(ro, "rv") {
					ok, why = false, "operands are not passed as (lv, rv)"
				}
			}
		}
		if ok && h == "doOpNeq" {
			neg := false
			for _, s := range f.CallsTo(c04G + "isEql") {
				engine.InspectBody(f, func(nd ast.Node) {
					if u, isU := nd.(*ast.UnaryExpr); isU && u.Op == token.NOT && ast.Unparen(u.X) == ast.Expr(s.Call) {
						neg = true
					}
				})
			}
			ok, why = neg, "!= must be the negation of isEql"
		}
		if ok && h == "doOpEql" {
			for _, s := range f.CallsTo(c04G + "isEql") {
				engine.InspectBody(f, func(nd ast.Node) {
					if u, isU := nd.(*ast.UnaryExpr); isU && u.Op == token.NOT && ast.Unparen(u.X) == ast.Expr(s.Call) {
						ok, why = false, "== must not negate isEql"
					}
				})
			}
		}
		c.Check("handler-family", h, f.Pos(), ok, why)
	}
	c.Floor("handler-family", n, 28)
}

// c04ClauseYields: the clause's sole statement returns / pushes the named Op constant.
func c04ClauseYields(f *engine.Fn, cc *ast.CaseClause, want, how string) bool {
	if cc == nil || len(cc.Body) != 1 || len(cc.List) != 1 {
		return false
	}
	info := f.Info()
	switch st := cc.Body[0].(type) {
	case *ast.ReturnStmt:
		if how != "return" || len(st.Results) != 1 {
			return false
		}
		k, _ := engine.ObjOf(info, st.Results[0]).(*types.Const)
		return k != nil && k.Name() == want
	case *ast.ExprStmt:
		if how != "push" {
			return false
		}
		call, cn := gvaCallee(info, st.X)
		if cn != c04G+"(*Machine).PushOp" || len(call.Args) != 1 {
			return false
		}
		k, _ := engine.ObjOf(info, call.Args[0]).(*types.Const)
		return k != nil && k.Name() == want
	}
	return false
}

// ---- integer × integer conversions ----

func c04IntConv(c *engine.Ctx, p *engine.Prog) {
	f := c.MustFunc(c04G + "ConvertTo")
	if f == nil {
		return
	}
	info := f.Info()
	var outer *engine.SwitchInfo
	for _, s := range f.Switches() {
		if s.Consts != nil && s.Consts["Float64Kind"] != nil && s.Consts["Uint16Kind"] != nil && s.Consts["SliceKind"] != nil {
			outer = s
		}
	}
	if outer == nil {
		c.Undecided("int-conv", "ConvertTo", "outer switch over the source kind not found")
		return
	}
	n := 0
	for _, fromI := range c04Ints {
		from := fromI + "Kind"
		occ := outer.Consts[from]
		if occ == nil {
			c.Check("int-conv", from, outer.Stmt.Pos(), false, "no case for source kind")
			continue
		}
		var inner *ast.SwitchStmt
		for _, st := range occ.Body {
			if s, ok := st.(*ast.SwitchStmt); ok {
				inner = s
			}
		}
		if inner == nil {
			c.Undecided("int-conv", from, "inner switch not found")
			continue
		}
		clauses := map[string]*ast.CaseClause{}
		for _, st := range inner.Body.List {
			cc := st.(*ast.CaseClause)
			for _, e := range cc.List {
				if o, ok := engine.ObjOf(info, e).(*types.Const); ok {
					clauses[o.Name()] = cc
				}
			}
		}
		for _, toI := range append(append([]string{}, c04Ints...), "String") {
			to := toI + "Kind"
			key := from + ">" + to
			n++
			cc := clauses[to]
			if cc == nil {
				c.Check("int-conv", key, inner.Pos(), false, "no case for this conversion (Go allows it)")
				continue
			}
			if toI == "String" {
				c.Check("int-conv", key, cc.Pos(), true, "case present (value of the rune conversion not analysed)")
				continue
			}
			ok, why := c04CheckIntConv(f, cc, fromI, toI)
			c.Check("int-conv", key, cc.Pos(), ok, why)
		}
	}
	c.Floor("int-conv", n, 110)
}

func c04CheckIntConv(f *engine.Fn, cc *ast.CaseClause, from, to string) (bool, string) {
	info := f.Info()
	if len(cc.List) != 1 {
		return false, "case shared between target kinds"
	}
	var set *ast.CallExpr
	bad := ""
	nset := 0
	gvaWalkClause(cc, func(nd ast.Node) bool {
		if call, ok := nd.(*ast.CallExpr); ok {
			if name, _ := gvaTVAccessor(info, call); c04AccNames[name] {
				switch {
				case strings.HasPrefix(name, "Set"):
					nset++
					set = call
					if !c04SameAcc(name[3:], to) {
						bad = "stores with " + name + ", want Set" + to
					}
				case !c04SameAcc(name[3:], from):
					bad = "reads with " + name + ", want Get" + from
				}
			}
		}
		return true
	})
	if bad != "" {
		return false, bad
	}
	if nset != 1 {
		return false, fmt.Sprintf("%d Set calls, expected one", nset)
	}
	// stored value: x := [T(] tv.Get<from>() [)]
	val := ast.Unparen(set.Args[0])
	if id, ok := val.(*ast.Ident); ok {
		obj := info.ObjectOf(id)
		var rhs ast.Expr
		cnt := 0
		gvaWalkClause(cc, func(nd ast.Node) bool {
			if as, ok := nd.(*ast.AssignStmt); ok && len(as.Lhs) == len(as.Rhs) {
				for i, l := range as.Lhs {
					if engine.ObjOf(info, l) == obj {
						cnt++
						rhs = as.Rhs[i]
					}
				}
			}
			return true
		})
		if cnt != 1 {
			return false, "stored value is assigned more than once"
		}
		val = ast.Unparen(rhs)
	}
	if name, _ := gvaTVAccessor(info, val); strings.HasPrefix(name, "Get") && c04SameAcc(name[3:], from) {
		return true, "Set" + to + "(Get" + from + "()) with identical Go types"
	}
	conv, ok := val.(*ast.CallExpr)
	if !ok || len(conv.Args) != 1 || !info.Types[conv.Fun].IsType() {
		return false, "stored value is not a single Go conversion of the source accessor"
	}
	if name, _ := gvaTVAccessor(info, conv.Args[0]); !strings.HasPrefix(name, "Get") || !c04SameAcc(name[3:], from) {
		return false, "the Go conversion is not applied directly to Get" + from + "() (an intermediate conversion changes sign/zero extension)"
	}
	return true, "Set" + to + "(T(Get" + from + "()))"
}
