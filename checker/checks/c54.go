package checks

import (
	"go/ast"
	"go/token"
	"go/types"
	"strings"

	"gnoverif/engine"
)

// C54 — gno fmt (thin): the formatter can change a parsed file only through the
// three astutil import helpers, never deletes an import that is still referenced,
// and prints exactly the tree it parsed.
func init() {
	register("C54", c54)
	meta("C54", Meta{
		Text:      "Thin structural claim for gno fmt's meaning preservation: in gnovm/pkg/gnofmt (1) no statement stores into a field of a go/ast node and no go/ast or astutil function that rewrites a tree is called, except astutil.AddImport / DeleteImport / DeleteNamedImport, which are called only from cleanupPreviousImports and resolve or private helpers reachable only from them; (2) both import-deletion calls are reachable only on the not-found branch of the `unresolved[name]` lookup, so an import whose name is still referenced is never removed, and a blank import is never treated as a named one; (3) the file handed to the printer is parsed with comments and with object resolution (file.Unresolved drives import pruning: without it every import would be deleted); (4) formatNode prints the same *ast.File it was given with the Processor's FileSet and post-processes with go/imports in FormatOnly mode with comments kept; (5) every exported function returning ([]byte, error) returns the output of the function that runs go/imports (through any chain of private helpers). Rules follow extracted helpers, helper parameters, single-definition locals and named constants rather than one statement shape. Level 'other'.",
		Note:      "Not covered: idempotence (format(format(x)) == format(x)), go/printer and go/imports themselves, the order in which resolve adds imports (it ranges over a map; the final go/imports sort is relied on), the resolver's choice among candidate packages, FormatFile's documented cross-file declaration pooling.",
		Technique: "AST store scan on go/ast-typed fields, R-WHO on tree-rewriting callees, go/cfg gate on the deletion sites, constant-flag inspection of parser/imports options, value-origin of returned bytes",
		Ref:       "DESIGN.md §2 C54",
	})
	mutants("C54",
		Mutant{"prune-used-imports", "gnovm/pkg/gnofmt/processor.go", "\t\t\tif _, ok := unresolved[name]; ok {\n\t\t\t\tdelete(unresolved, name)\n\t\t\t\tcontinue\n\t\t\t}", "\t\t\tif _, ok := unresolved[name]; ok {\n\t\t\t\tdelete(unresolved, name)\n\t\t\t}", "import-deletion-guard"},
		Mutant{"skip-object-resolution", "gnovm/pkg/gnofmt/processor.go", "parser.ParseFile(p.fset, path, src, parser.ParseComments|parser.AllErrors)", "parser.ParseFile(p.fset, path, src, parser.ParseComments|parser.AllErrors|parser.SkipObjectResolution)", "parse-mode"},
		Mutant{"imports-not-format-only", "gnovm/pkg/gnofmt/processor.go", "\t\tFormatOnly: true,", "\t\tFormatOnly: false,", "print-path gnovm/pkg/gnofmt.(*Processor).formatNode FormatOnly"},
		Mutant{"direct-ast-rewrite", "gnovm/pkg/gnofmt/processor.go", "\t// Resolve unresolved declarations\n\tp.resolve(file, unresolved)\n", "\t// Resolve unresolved declarations\n\tp.resolve(file, unresolved)\n\tif len(file.Decls) > 0 {\n\t\tfile.Decls = file.Decls[:len(file.Decls)-1]\n\t}\n", "ast-store"},
		Mutant{"blank-import-treated-as-named", "gnovm/pkg/gnofmt/processor.go", "isNamedImport := imp.Name != nil && imp.Name.Name != \"_\"", "isNamedImport := imp.Name != nil", "import-deletion-guard"},
		Mutant{"comments-dropped", "gnovm/pkg/gnofmt/processor.go", "\t\tComments:   true,", "\t\tComments:   false,", "print-path gnovm/pkg/gnofmt.(*Processor).formatNode Comments"},
		Mutant{"entry-bypasses-printer", "gnovm/pkg/gnofmt/processor.go", "\treturn p.formatNode(nodefile, filename)\n}\n\n// FormatPackageFile", "\tvar b bytes.Buffer\n\terr = printer.Fprint(&b, token.NewFileSet(), nodefile)\n\treturn b.Bytes(), err\n}\n\n// FormatPackageFile", "entry-returns"},
	)
}

const (
	c54Pkg     = "gnovm/pkg/gnofmt"
	c54Astutil = "golang.org/x/tools/go/ast/astutil"
)

func c54(c *engine.Ctx) {
	c.Explain = "Thin clause of gno fmt's meaning preservation, decided over gnovm/pkg/gnofmt: no store into go/ast node fields; the only tree-rewriting callees are astutil.AddImport/DeleteImport/DeleteNamedImport, called only from cleanupPreviousImports and resolve; import deletions sit on the not-found branch of the unresolved[name] lookup and the named-import test excludes `_`; the formatted file is parsed with ParseComments and with object resolution; formatNode prints the tree it received with the Processor's FileSet and runs go/imports with FormatOnly and Comments set; every Format* entry point returns formatNode's output. Not covered: idempotence, go/printer and go/imports, map-ordered import insertion, resolver choices."
	p := c.Load(c54Pkg)
	if p == nil {
		return
	}
	fns := p.FuncsIn(c54Pkg)
	c.Floor("functions-scanned", len(fns), 30)

	// (1) no store into go/ast node fields
	isAstField := func(info *types.Info, e ast.Expr) (string, bool) {
		e = ast.Unparen(e)
		for {
			switch x := e.(type) {
			case *ast.IndexExpr:
				e = ast.Unparen(x.X)
				continue
			case *ast.StarExpr:
				e = ast.Unparen(x.X)
				continue
			case *ast.SliceExpr:
				e = ast.Unparen(x.X)
				continue
			}
			break
		}
		se, ok := e.(*ast.SelectorExpr)
		if !ok {
			return "", false
		}
		v, ok := info.Uses[se.Sel].(*types.Var)
		if !ok || !v.IsField() || v.Pkg() == nil || v.Pkg().Path() != "go/ast" {
			return "", false
		}
		return engine.ExprString(se), true
	}
	nStores := 0
	for _, f := range fns {
		info := f.Info()
		var bad []string
		engine.InspectBody(f, func(n ast.Node) {
			switch x := n.(type) {
			case *ast.AssignStmt:
				for _, l := range x.Lhs {
					nStores++
					if s, ok := isAstField(info, l); ok {
						bad = append(bad, s)
					}
				}
			case *ast.IncDecStmt:
				nStores++
				if s, ok := isAstField(info, x.X); ok {
					bad = append(bad, s)
				}
			case *ast.UnaryExpr:
				if x.Op == token.AND {
					if s, ok := isAstField(info, x.X); ok {
						bad = append(bad, "&"+s)
					}
				}
			case *ast.CallExpr:
				if engine.IsBuiltinCall(info, x, "copy") || engine.IsBuiltinCall(info, x, "clear") || engine.IsBuiltinCall(info, x, "delete") {
					if s, ok := isAstField(info, x.Args[0]); ok {
						bad = append(bad, s)
					}
				}
			}
		})
		if f.Decl != nil || len(bad) > 0 {
			c.Check("ast-store", f.Name, f.Pos(), len(bad) == 0, "formatter code writes into the syntax tree directly: "+join(bad))
		}
	}
	c.Floor("ast-store", nStores, 60)

	// tree-rewriting callees
	allowed := map[string]bool{c54Astutil + ".AddImport": true, c54Astutil + ".DeleteImport": true, c54Astutil + ".DeleteNamedImport": true}
	readOnly := map[string]bool{
		c54Astutil + ".Imports": true, c54Astutil + ".UsesImport": true, c54Astutil + ".PathEnclosingInterval": true, c54Astutil + ".NodeDescription": true, c54Astutil + ".Unparen": true,
		"go/ast.Inspect": true, "go/ast.Walk": true, "go/ast.IsExported": true, "go/ast.Print": true, "go/ast.Fprint": true, "go/ast.Preorder": true, "go/ast.Unparen": true, "go/ast.IsGenerated": true, "go/ast.NewIdent": true, "go/ast.NewScope": true, "go/ast.NewCommentMap": true,
	}
	allowedRoots := []string{c54Pkg + ".(*Processor).cleanupPreviousImports", c54Pkg + ".(*Processor).resolve"}
	mutRefs := p.RefsTo(func(o types.Object) bool {
		f, ok := o.(*types.Func)
		if !ok || f.Pkg() == nil {
			return false
		}
		n := engine.FuncName(f)
		return (strings.HasPrefix(n, c54Astutil+".") || strings.HasPrefix(n, "go/ast.")) && !strings.Contains(n, ").") && !readOnly[n]
	})
	unexpected := p.UnexpectedCallers(mutRefs, allowedRoots) // closed under private helpers of the two allowed functions
	nMut := 0
	for _, r := range mutRefs {
		n := engine.FuncName(r.Fn.Info().Uses[r.Ident].(*types.Func))
		nMut++
		root := "<package-level>"
		if r.Fn != nil {
			root = r.Fn.Root().Name
		}
		bad := false
		for _, u := range unexpected {
			if u == root {
				bad = true
			}
		}
		c.Check("ast-mutators", n+" from "+root, r.Ident.Pos(), allowed[n] && !bad && r.IsCall, "only astutil.AddImport/DeleteImport/DeleteNamedImport may rewrite the tree, and only from cleanupPreviousImports/resolve or their private helpers")
	}
	c.Floor("ast-mutators", nMut, 3)

	// (2) deletion guard — facts that hold at the (possibly helper-wrapped) deletion sites
	if f := c.MustFunc(c54Pkg + ".(*Processor).cleanupPreviousImports"); f != nil {
		dels := f.DeepCallsTo(2, c54Astutil+".DeleteImport", c54Astutil+".DeleteNamedImport")
		c.Floor("import-deletion-guard", len(dels), 2)
		for _, d := range dels {
			notFound, notBlank := false, false
			for _, gt := range d.DeepGates() {
				gf := p.EnclosingFn(f.Pkg.PkgPath, gt.Cond.Pos())
				if gf == nil {
					continue
				}
				for _, fact := range c54FactsDeep(d, gf, gt.Full(), gt.OnTrue, 3) {
					if !fact.pos && c54IsMapLookupOK(fact.fn, fact.e) {
						notFound = true
					}
					if fact.pos {
						if b, ok := ast.Unparen(fact.e).(*ast.BinaryExpr); ok && b.Op == token.NEQ {
							for _, side := range []ast.Expr{b.X, b.Y} {
								if tv, isC := fact.fn.Info().Types[side]; isC && tv.Value != nil && tv.Value.ExactString() == `"_"` {
									notBlank = true
								}
							}
						}
					}
				}
			}
			callee := d.Inner.CalleeName()
			c.Check("import-deletion-guard", f.Name+" → "+callee, d.Inner.Pos(), notFound, "an import may be deleted only on the not-found side of the lookup of its name among the still-referenced (unresolved) identifiers")
			if callee == c54Astutil+".DeleteNamedImport" {
				c.Check("import-deletion-guard", f.Name+" → "+callee+" excludes blank imports", d.Inner.Pos(), notBlank, "`_` imports must not count as named imports (their name would be looked up and the side-effect import deleted)")
			}
		}
	}

	// (3) parse mode: a file that may be formatted is parsed in full, with comments and object resolution
	{
		modeBit := func(name string) int64 {
			if pk := p.ByPath["go/parser"]; pk != nil {
				if k, ok := pk.Types.Scope().Lookup(name).(*types.Const); ok {
					if v, ok := ceConstInt(k); ok {
						return v
					}
				}
			}
			return 0
		}
		nParse, nFull := 0, 0
		for _, f := range fns {
			info := f.Info()
			for _, s := range f.CallsTo("go/parser.ParseFile") {
				nParse++
				if len(s.Call.Args) != 4 {
					c.Check("parse-mode", f.Root().Name, s.Pos(), false, "unexpected ParseFile arity")
					continue
				}
				mv, isC := ceIntConst(info, s.Call.Args[3])
				if !isC {
					c.Check("parse-mode", f.Root().Name, s.Pos(), false, "parser mode is not a constant")
					continue
				}
				partial := mv&(modeBit("PackageClauseOnly")|modeBit("ImportsOnly")) != 0
				why := ""
				if partial {
					// a partial parse must never reach the printer: its result is used for its package name only
					as, ok := s.Top.(*ast.AssignStmt)
					if !ok || len(as.Lhs) < 1 {
						why = "partially parsed file is not bound to a local"
					} else {
						fo := engine.ObjOf(info, as.Lhs[0])
						ast.Inspect(f.Root().Body, func(n ast.Node) bool {
							if se, ok := n.(*ast.SelectorExpr); ok {
								if id, ok := se.X.(*ast.Ident); ok && info.ObjectOf(id) == fo {
									if se.Sel.Name != "Name" {
										why = "partially parsed file is used beyond its package name (." + se.Sel.Name + ")"
									}
									return false
								}
							}
							if id, ok := n.(*ast.Ident); ok && info.Uses[id] == fo {
								why = "partially parsed file escapes (it could be formatted with its declarations missing)"
							}
							return true
						})
					}
				} else {
					nFull++
					if mv&modeBit("ParseComments") == 0 {
						why = "ParseComments missing: the printer would drop every comment and directive"
					}
					if mv&modeBit("SkipObjectResolution") != 0 {
						why = "SkipObjectResolution set: file.Unresolved is empty, so import pruning deletes imports that are in use"
					}
					if !c54IsProcessorFset(p, f, s.Call.Args[0]) {
						why = "file is not registered in the Processor's FileSet (" + engine.ExprString(s.Call.Args[0]) + ")"
					}
				}
				c.Check("parse-mode", f.Root().Name, s.Pos(), why == "", why)
			}
		}
		c.Floor("parse-mode", nFull, 1)
		_ = nParse
	}

	// (4) print path: wherever go/imports post-processes, it gets the bytes just printed from the
	// given file, in FormatOnly mode with comments kept, and its output is what is returned
	isFprint := func(n string) bool { return n == "go/printer.Fprint" || n == "go/printer.(*Config).Fprint" }
	formatters := map[*engine.Fn]bool{} // functions that call imports.Process
	nProc := 0
	for _, f := range fns {
		info := f.Info()
		for _, s := range f.CallsTo("golang.org/x/tools/imports.Process") {
			nProc++
			formatters[f.Root()] = true
			name := f.Root().Name
			if len(s.Call.Args) != 3 {
				c.Check("print-path", name+" imports.Process input", s.Pos(), false, "unexpected arity")
				continue
			}
			// printed bytes
			inputOK, why := false, "go/imports must receive the bytes just printed from the parsed file"
			for _, d := range f.DeepFind(2, func(fn *engine.Fn, n ast.Node) bool {
				call, ok := n.(*ast.CallExpr)
				return ok && isFprint(ceCallName(fn.Info(), call))
			}) {
				if !f.Graph().Dominates(d.Outer, s) {
					continue
				}
				in := d.Inner
				ii := in.Fn.Info()
				if len(in.Call.Args) != 3 {
					continue
				}
				// the node printed is an *ast.File parameter of the printing function, with the Processor's FileSet
				nodeObj := engine.ObjOf(ii, in.Call.Args[2])
				isParam := false
				for k := 0; ; k++ {
					po := paramObj(in.Fn.Root(), k)
					if po == nil {
						break
					}
					if po == nodeObj {
						isParam = true
					}
				}
				if !isParam || !c54IsProcessorFset(p, in.Fn, in.Call.Args[1]) {
					why = "the printer must print the *ast.File it was given, with the FileSet the file was parsed in"
					continue
				}
				if d.Inner == d.Outer {
					if u, isU := ast.Unparen(in.Call.Args[0]).(*ast.UnaryExpr); isU && u.Op == token.AND {
						if buf := engine.ObjOf(info, u.X); buf != nil && engine.Mentions(info, s.Call.Args[1], buf) {
							inputOK = true
						}
					}
				} else if as, isAs := d.Outer.Top.(*ast.AssignStmt); isAs && len(as.Lhs) >= 1 {
					if v := engine.ObjOf(info, as.Lhs[0]); v != nil && engine.Mentions(info, s.Call.Args[1], v) {
						inputOK = true
					}
				}
			}
			c.Check("print-path", name+" imports.Process input", s.Pos(), inputOK, why)
			opts := map[string]string{}
			ast.Inspect(c54Resolve(p, f, s.Call.Args[2], 3), func(n ast.Node) bool {
				if kv, isKV := n.(*ast.KeyValueExpr); isKV {
					if id, isId := kv.Key.(*ast.Ident); isId {
						if v, isC := ceBoolConstAnywhere(p, kv.Value); isC {
							opts[id.Name] = v
						} else {
							opts[id.Name] = "?"
						}
					}
				}
				return true
			})
			c.Check("print-path", name+" FormatOnly", s.Pos(), opts["FormatOnly"] == "true", "go/imports must run in FormatOnly mode (otherwise it adds/removes imports by Go's rules, not Gno's)")
			c.Check("print-path", name+" Comments", s.Pos(), opts["Comments"] == "true", "go/imports must keep comments")
			retOK := false
			if as, isAs := s.Top.(*ast.AssignStmt); isAs && len(as.Lhs) >= 1 {
				retOK = returnsObj(f, engine.ObjOf(info, as.Lhs[0]))
			}
			if _, isRet := s.Top.(*ast.ReturnStmt); isRet {
				retOK = true
			}
			c.Check("print-path", name+" returns imports.Process output", s.Pos(), retOK, "the formatting function must return go/imports' output")
		}
	}
	c.Floor("print-path", nProc, 1)

	// (5) every function of the package that returns ([]byte, error) returns formatted bytes:
	// the result of a function that (transitively) returns the formatter's output
	returnsBytesErr := func(f *engine.Fn) bool {
		if f.Obj == nil {
			return false
		}
		res := f.Obj.Type().(*types.Signature).Results()
		return res.Len() == 2 && res.At(0).Type().String() == "[]byte" && res.At(1).Type().String() == "error"
	}
	good := map[*engine.Fn]bool{}
	for f := range formatters {
		good[f] = true
	}
	nE := 0
	var pending []*engine.Fn
	for _, f := range fns {
		if f.Decl != nil && returnsBytesErr(f) && !formatters[f] {
			pending = append(pending, f)
		}
	}
	verdict := map[*engine.Fn]string{}
	for round := 0; round < 6; round++ {
		for _, f := range pending {
			if good[f] {
				continue
			}
			why, nOK := "", 0
			engine.InspectBody(f, func(n ast.Node) {
				r, ok := n.(*ast.ReturnStmt)
				if !ok {
					return
				}
				switch len(r.Results) {
				case 1:
					call, isCall := ast.Unparen(r.Results[0]).(*ast.CallExpr)
					var callee *engine.Fn
					if isCall {
						callee = p.FnOf(c52CalleeFunc(f.Info(), call))
					}
					if callee == nil || !good[callee] {
						why = "returns `" + engine.ExprString(r.Results[0]) + "`, which is not the formatter's output"
					} else {
						nOK++
					}
				case 2:
					if !isNil(r.Results[0]) {
						why = "returns bytes `" + engine.ExprString(r.Results[0]) + "` that did not come from the formatter"
					}
				default:
					why = "unexpected return shape"
				}
			})
			if why == "" && nOK == 0 {
				why = "never returns the formatter's output"
			}
			verdict[f] = why
			if why == "" {
				good[f] = true
			}
		}
	}
	for _, f := range pending {
		if !f.Obj.Exported() {
			continue // private intermediates are judged through the entry points that return them
		}
		nE++
		c.Check("entry-returns", f.Name, f.Pos(), good[f], verdict[f])
	}
	c.Floor("entry-returns", nE, 4)
	// a function that prunes/resolves imports and then formats must do all of it on one and the same file
	nSame := 0
	for _, f := range fns {
		if f.Decl == nil {
			continue
		}
		var objs []types.Object
		hasFmt := false
		for _, s := range f.Calls() {
			callee := p.FnOf(c52CalleeFunc(f.Info(), s.Call))
			if callee == nil {
				continue
			}
			for _, a := range s.Call.Args {
				if t := f.Info().TypeOf(a); t != nil && t.String() == "*go/ast.File" {
					objs = append(objs, engine.ObjOf(f.Info(), a))
					if good[callee] {
						hasFmt = true
					}
				}
			}
		}
		if !hasFmt || len(objs) < 2 {
			continue
		}
		nSame++
		same := true
		for _, o := range objs {
			if o == nil || o != objs[0] {
				same = false
			}
		}
		c.Check("entry-returns", f.Name+" same file", f.Pos(), same, "unresolved-collection, import pruning/resolution and formatting must all operate on the one file that was parsed")
	}
	c.Floor("entry-returns(same file)", nSame, 1)
}

type c54Fact struct {
	e   ast.Expr
	pos bool // e holds (true) / does not hold (false) at the site
	fn  *engine.Fn
}

// c54FactsDeep is c54Facts for a gate found along a deep site: an atom that is a
// parameter of a helper on the chain is replaced by the argument passed at the call
// that entered the helper (evaluated in the caller), so `helper(named, ...)` with
// `if named {` inside means the same as the inlined test.
func c54FactsDeep(d engine.DeepSite, gf *engine.Fn, cond ast.Expr, onTrue bool, depth int) []c54Fact {
	var out []c54Fact
	for _, f := range c54Facts(gf, cond, onTrue, 2) {
		if f.fn == nil {
			f.fn = gf
		}
		gf := f.fn
		id, isId := ast.Unparen(f.e).(*ast.Ident)
		if !isId || depth <= 0 {
			out = append(out, f)
			continue
		}
		obj := gf.Info().ObjectOf(id)
		// which helper of the chain is gf, and which call entered it
		var call *ast.CallExpr
		var caller *engine.Fn
		for i, h := range d.Chain {
			if h != gf.Root() {
				continue
			}
			if i == 0 {
				call, caller = d.Outer.Call, d.Outer.Fn
			} else {
				prev := d.Chain[i-1]
				for _, s := range prev.Calls() {
					if fo, _ := s.Callee.(*types.Func); fo != nil && prev.Prog.FnOf(fo) == h {
						call, caller = s.Call, prev
					}
				}
			}
		}
		replaced := false
		if call != nil {
			for k := 0; ; k++ {
				po := paramObj(gf.Root(), k)
				if po == nil {
					break
				}
				if po == obj && k < len(call.Args) {
					out = append(out, c54FactsDeep(d, caller, call.Args[k], f.pos, depth-1)...)
					replaced = true
				}
			}
		}
		if !replaced {
			out = append(out, f)
		}
	}
	return out
}

// c54Facts splits a gate into atomic facts holding at the gated site: conjuncts on
// the true side, disjuncts on the false side, negations folded into polarity,
// single-definition boolean locals replaced by their defining expression.
func c54Facts(f *engine.Fn, cond ast.Expr, onTrue bool, depth int) []c54Fact {
	cond = ast.Unparen(cond)
	if u, ok := cond.(*ast.UnaryExpr); ok && u.Op == token.NOT {
		return c54Facts(f, u.X, !onTrue, depth)
	}
	if b, ok := cond.(*ast.BinaryExpr); ok {
		if (b.Op == token.LAND && onTrue) || (b.Op == token.LOR && !onTrue) {
			return append(c54Facts(f, b.X, onTrue, depth), c54Facts(f, b.Y, onTrue, depth)...)
		}
	}
	if id, ok := cond.(*ast.Ident); ok && depth > 0 {
		obj := f.Info().ObjectOf(id)
		if def := ceSingleDef(f, obj); def != nil {
			if _, isIdx := ast.Unparen(def).(*ast.IndexExpr); !isIdx {
				return c54Facts(f, def, onTrue, depth-1)
			}
		}
		// `a, b := helper(...)`: b is what the helper returns at that position
		if call, idx := ceTupleDef(f, obj); call != nil {
			if g := f.Prog.FnOf(c52CalleeFunc(f.Info(), call)); g != nil {
				var rets []*ast.ReturnStmt
				engine.InspectBody(g, func(n ast.Node) {
					if r, ok := n.(*ast.ReturnStmt); ok {
						rets = append(rets, r)
					}
				})
				if len(rets) == 1 {
					var res ast.Expr
					if idx < len(rets[0].Results) {
						res = rets[0].Results[idx]
					} else if len(rets[0].Results) == 0 && g.Type.Results != nil {
						// bare return of named results
						k := 0
						for _, fld := range g.Type.Results.List {
							for _, nm := range fld.Names {
								if k == idx {
									res = nm
								}
								k++
							}
						}
					}
					if res != nil {
						return c54Facts(g, res, onTrue, depth-1)
					}
				}
			}
		}
	}
	return []c54Fact{{e: cond, pos: onTrue, fn: f}}
}

// c54IsMapLookupOK: e is the `ok` of `_, ok := m[k]` where m is a map keyed by
// identifier name (the unresolved set, map[string]map[string]bool).
func c54IsMapLookupOK(f *engine.Fn, e ast.Expr) bool {
	id, ok := ast.Unparen(e).(*ast.Ident)
	if !ok {
		return false
	}
	info := f.Info()
	obj := info.ObjectOf(id)
	found := false
	ast.Inspect(f.Root().Body, func(n ast.Node) bool {
		as, ok := n.(*ast.AssignStmt)
		if !ok || len(as.Lhs) != 2 || len(as.Rhs) != 1 || engine.ObjOf(info, as.Lhs[1]) != obj {
			return true
		}
		if ix, ok := ast.Unparen(as.Rhs[0]).(*ast.IndexExpr); ok {
			if t := info.TypeOf(ix.X); t != nil && t.Underlying().String() == "map[string]map[string]bool" {
				found = true
			}
		}
		return true
	})
	return found
}

// c54IsProcessorFset: e denotes the Processor's FileSet field (directly or through
// a single-definition local), or a *token.FileSet parameter handed down by a caller.
func c54IsProcessorFset(p *engine.Prog, f *engine.Fn, e ast.Expr) bool {
	info := f.Info()
	e = ast.Unparen(e)
	if id, ok := e.(*ast.Ident); ok {
		o := info.ObjectOf(id)
		if def := ceSingleDef(f, o); def != nil {
			return c54IsProcessorFset(p, f, def)
		}
		for k := 0; ; k++ {
			po := paramObj(f.Root(), k)
			if po == nil {
				break
			}
			if po == o {
				return true
			}
		}
		return false
	}
	se, ok := e.(*ast.SelectorExpr)
	if !ok {
		return false
	}
	v, _ := info.Uses[se.Sel].(*types.Var)
	return v != nil && v == p.Field(c54Pkg+".Processor.fset")
}

// c54Resolve follows an expression to the composite literal it denotes: &lit,
// single-definition local, package-level variable initialiser, or a package
// function whose single return statement returns one.
func c54Resolve(p *engine.Prog, f *engine.Fn, e ast.Expr, depth int) ast.Node {
	e = ast.Unparen(e)
	if depth <= 0 {
		return e
	}
	switch x := e.(type) {
	case *ast.UnaryExpr:
		if x.Op == token.AND {
			return c54Resolve(p, f, x.X, depth)
		}
	case *ast.CompositeLit:
		return x
	case *ast.Ident:
		o := f.Info().ObjectOf(x)
		if def := ceSingleDef(f, o); def != nil {
			return c54Resolve(p, f, def, depth-1)
		}
		if v, ok := o.(*types.Var); ok && v.Pkg() != nil && v.Parent() == v.Pkg().Scope() {
			for _, pk := range p.Pkgs {
				if pk.Types != v.Pkg() {
					continue
				}
				for _, file := range pk.Syntax {
					for _, d := range file.Decls {
						gd, ok := d.(*ast.GenDecl)
						if !ok {
							continue
						}
						for _, sp := range gd.Specs {
							if vs, ok := sp.(*ast.ValueSpec); ok {
								for i, nm := range vs.Names {
									if pk.TypesInfo.Defs[nm] == v && len(vs.Values) == len(vs.Names) {
										return c54Resolve(p, &engine.Fn{Prog: p, Pkg: pk, Body: &ast.BlockStmt{}}, vs.Values[i], depth-1)
									}
								}
							}
						}
					}
				}
			}
		}
	case *ast.CallExpr:
		if g := p.FnOf(c52CalleeFunc(f.Info(), x)); g != nil {
			var rets []*ast.ReturnStmt
			engine.InspectBody(g, func(n ast.Node) {
				if r, ok := n.(*ast.ReturnStmt); ok {
					rets = append(rets, r)
				}
			})
			if len(rets) == 1 && len(rets[0].Results) == 1 {
				return c54Resolve(p, g, rets[0].Results[0], depth-1)
			}
		}
	}
	return e
}

// ceBoolConstAnywhere evaluates a boolean constant expression using whichever
// loaded package's type information knows the node.
func ceBoolConstAnywhere(p *engine.Prog, e ast.Expr) (string, bool) {
	for _, pk := range p.Pkgs {
		if tv, ok := pk.TypesInfo.Types[e]; ok && tv.Value != nil {
			return tv.Value.ExactString(), true
		}
	}
	return "", false
}

func ceConstInt(k *types.Const) (int64, bool) {
	return ceConstantInt64(k)
}
