package checks

import (
	"go/ast"
	"go/token"
	"go/types"
	"strings"

	"gnoverif/engine"
)

// C54 — gno fmt (thin): the formatter can change a parsed file only through the
// three astutil import helpers, never deletes an import that is still referenced,
// and prints exactly the tree it parsed.
func init() {
	register("C54", c54)
	meta("C54", Meta{
		Text:      "Thin structural claim for gno fmt's meaning preservation: in gnovm/pkg/gnofmt (1) no statement stores into a field of a go/ast node and no go/ast or astutil function that rewrites a tree is called, except astutil.AddImport / DeleteImport / DeleteNamedImport, which are called only from cleanupPreviousImports and resolve; (2) both import-deletion calls are reachable only on the not-found branch of the `unresolved[name]` lookup, so an import whose name is still referenced is never removed, and a blank import is never treated as a named one; (3) the file handed to the printer is parsed with comments and with object resolution (file.Unresolved drives import pruning: without it every import would be deleted); (4) formatNode prints the same *ast.File it was given with the Processor's FileSet and post-processes with go/imports in FormatOnly mode with comments kept; (5) every Format* entry point returns what formatNode produced. Level 'other'.",
		Note:      "Not covered: idempotence (format(format(x)) == format(x)), go/printer and go/imports themselves, the order in which resolve adds imports (it ranges over a map; the final go/imports sort is relied on), the resolver's choice among candidate packages, FormatFile's documented cross-file declaration pooling.",
		Technique: "AST store scan on go/ast-typed fields, R-WHO on tree-rewriting callees, go/cfg gate on the deletion sites, constant-flag inspection of parser/imports options, value-origin of returned bytes",
		Ref:       "DESIGN.md §2 C54",
	})
	mutants("C54",
		Mutant{"prune-used-imports", "gnovm/pkg/gnofmt/processor.go", "\t\t\tif _, ok := unresolved[name]; ok {\n\t\t\t\tdelete(unresolved, name)\n\t\t\t\tcontinue\n\t\t\t}", "\t\t\tif _, ok := unresolved[name]; ok {\n\t\t\t\tdelete(unresolved, name)\n\t\t\t}", "import-deletion-guard"},
		Mutant{"skip-object-resolution", "gnovm/pkg/gnofmt/processor.go", "parser.ParseFile(p.fset, path, src, parser.ParseComments|parser.AllErrors)", "parser.ParseFile(p.fset, path, src, parser.ParseComments|parser.AllErrors|parser.SkipObjectResolution)", "parse-mode"},
		Mutant{"imports-not-format-only", "gnovm/pkg/gnofmt/processor.go", "\t\tFormatOnly: true,", "\t\tFormatOnly: false,", "print-path gnovm/pkg/gnofmt.(*Processor).formatNode FormatOnly"},
		Mutant{"direct-ast-rewrite", "gnovm/pkg/gnofmt/processor.go", "\t// Resolve unresolved declarations\n\tp.resolve(file, unresolved)\n", "\t// Resolve unresolved declarations\n\tp.resolve(file, unresolved)\n\tif len(file.Decls) > 0 {\n\t\tfile.Decls = file.Decls[:len(file.Decls)-1]\n\t}\n", "ast-store"},
		Mutant{"blank-import-treated-as-named", "gnovm/pkg/gnofmt/processor.go", "isNamedImport := imp.Name != nil && imp.Name.Name != \"_\"", "isNamedImport := imp.Name != nil", "import-deletion-guard"},
		Mutant{"comments-dropped", "gnovm/pkg/gnofmt/processor.go", "\t\tComments:   true,", "\t\tComments:   false,", "print-path gnovm/pkg/gnofmt.(*Processor).formatNode Comments"},
		Mutant{"entry-bypasses-printer", "gnovm/pkg/gnofmt/processor.go", "\treturn p.formatNode(nodefile, filename)\n}\n\n// FormatPackageFile", "\tvar b bytes.Buffer\n\terr = printer.Fprint(&b, token.NewFileSet(), nodefile)\n\treturn b.Bytes(), err\n}\n\n// FormatPackageFile", "entry-returns"},
	)
}

const (
	c54Pkg     = "gnovm/pkg/gnofmt"
	c54Astutil = "golang.org/x/tools/go/ast/astutil"
)

func c54(c *engine.Ctx) {
	c.Explain = "Thin clause of gno fmt's meaning preservation, decided over gnovm/pkg/gnofmt: no store into go/ast node fields; the only tree-rewriting callees are astutil.AddImport/DeleteImport/DeleteNamedImport, called only from cleanupPreviousImports and resolve; import deletions sit on the not-found branch of the unresolved[name] lookup and the named-import test excludes `_`; the formatted file is parsed with ParseComments and with object resolution; formatNode prints the tree it received with the Processor's FileSet and runs go/imports with FormatOnly and Comments set; every Format* entry point returns formatNode's output. Not covered: idempotence, go/printer and go/imports, map-ordered import insertion, resolver choices."
	p := c.Load(c54Pkg)
	if p == nil {
		return
	}
	fns := p.FuncsIn(c54Pkg)
	c.Floor("functions-scanned", len(fns), 30)

	// (1) no store into go/ast node fields
	isAstField := func(info *types.Info, e ast.Expr) (string, bool) {
		e = ast.Unparen(e)
		for {
			switch x := e.(type) {
			case *ast.IndexExpr:
				e = ast.Unparen(x.X)
				continue
			case *ast.StarExpr:
				e = ast.Unparen(x.X)
				continue
			case *ast.SliceExpr:
				e = ast.Unparen(x.X)
				continue
			}
			break
		}
		se, ok := e.(*ast.SelectorExpr)
		if !ok {
			return "", false
		}
		v, ok := info.Uses[se.Sel].(*types.Var)
		if !ok || !v.IsField() || v.Pkg() == nil || v.Pkg().Path() != "go/ast" {
			return "", false
		}
		return engine.ExprString(se), true
	}
	nStores := 0
	for _, f := range fns {
		info := f.Info()
		var bad []string
		engine.InspectBody(f, func(n ast.Node) {
			switch x := n.(type) {
			case *ast.AssignStmt:
				for _, l := range x.Lhs {
					nStores++
					if s, ok := isAstField(info, l); ok {
						bad = append(bad, s)
					}
				}
			case *ast.IncDecStmt:
				nStores++
				if s, ok := isAstField(info, x.X); ok {
					bad = append(bad, s)
				}
			case *ast.UnaryExpr:
				if x.Op == token.AND {
					if s, ok := isAstField(info, x.X); ok {
						bad = append(bad, "&"+s)
					}
				}
			case *ast.CallExpr:
				if engine.IsBuiltinCall(info, x, "copy") || engine.IsBuiltinCall(info, x, "clear") || engine.IsBuiltinCall(info, x, "delete") {
					if s, ok := isAstField(info, x.Args[0]); ok {
						bad = append(bad, s)
					}
				}
			}
		})
		if f.Decl != nil || len(bad) > 0 {
			c.Check("ast-store", f.Name, f.Pos(), len(bad) == 0, "formatter code writes into the syntax tree directly: "+join(bad))
		}
	}
	c.Floor("ast-store", nStores, 60)

	// tree-rewriting callees
	allowed := map[string]bool{c54Astutil + ".AddImport": true, c54Astutil + ".DeleteImport": true, c54Astutil + ".DeleteNamedImport": true}
	readOnly := map[string]bool{
		c54Astutil + ".Imports": true, c54Astutil + ".UsesImport": true, c54Astutil + ".PathEnclosingInterval": true, c54Astutil + ".NodeDescription": true, c54Astutil + ".Unparen": true,
		"go/ast.Inspect": true, "go/ast.Walk": true, "go/ast.IsExported": true, "go/ast.Print": true, "go/ast.Fprint": true, "go/ast.Preorder": true, "go/ast.Unparen": true, "go/ast.IsGenerated": true, "go/ast.NewIdent": true, "go/ast.NewScope": true, "go/ast.NewCommentMap": true,
	}
	nMut := 0
	for _, f := range fns {
		for _, s := range f.Calls() {
			n := s.CalleeName()
			if !(strings.HasPrefix(n, c54Astutil+".") || strings.HasPrefix(n, "go/ast.")) || strings.Contains(n, ").") {
				continue
			}
			if readOnly[n] {
				continue
			}
			nMut++
			root := f.Root().Name
			okCaller := root == c54Pkg+".(*Processor).cleanupPreviousImports" || root == c54Pkg+".(*Processor).resolve"
			c.Check("ast-mutators", root+" → "+n, s.Pos(), allowed[n] && okCaller, "only astutil.AddImport/DeleteImport/DeleteNamedImport may rewrite the tree, and only from cleanupPreviousImports/resolve")
		}
	}
	c.Floor("ast-mutators", nMut, 3)

	// (2) deletion guard
	if f := c.MustFunc(c54Pkg + ".(*Processor).cleanupPreviousImports"); f != nil {
		info := f.Info()
		g := f.Graph()
		unres := paramObj(f, 2)
		dels := f.CallsTo(c54Astutil+".DeleteImport", c54Astutil+".DeleteNamedImport")
		c.Floor("import-deletion-guard", len(dels), 2)
		// `name` variable looked up in unresolved
		for _, d := range dels {
			ok, why := false, "deletion is not confined to the not-found branch of `_, ok := unresolved[name]`"
			for _, gt := range g.Gates(d) {
				id, isId := ast.Unparen(gt.Cond).(*ast.Ident)
				if !isId || gt.OnTrue {
					continue
				}
				okObj := info.ObjectOf(id)
				// okObj defined by a comma-ok index of the unresolved map
				engine.InspectBody(f, func(n ast.Node) {
					as, isAs := n.(*ast.AssignStmt)
					if !isAs || len(as.Lhs) != 2 || len(as.Rhs) != 1 || engine.ObjOf(info, as.Lhs[1]) != okObj {
						return
					}
					ix, isIx := ast.Unparen(as.Rhs[0]).(*ast.IndexExpr)
					if isIx && engine.ObjOf(info, ix.X) == unres && unres != nil {
						ok, why = true, "deletion only when the import's name is not among the unresolved (still referenced) identifiers"
					}
				})
			}
			c.Check("import-deletion-guard", f.Name+" → "+d.CalleeName(), d.Pos(), ok, why)
		}
		// named-import test must exclude the blank identifier
		found := false
		engine.InspectBody(f, func(n ast.Node) {
			as, isAs := n.(*ast.AssignStmt)
			if !isAs || len(as.Lhs) != 1 || len(as.Rhs) != 1 {
				return
			}
			if id, isId := as.Lhs[0].(*ast.Ident); !isId || id.Name != "isNamedImport" {
				return
			}
			found = true
			hasNil, hasBlank := false, false
			for _, cj := range engine.Conjuncts(as.Rhs[0], token.LAND) {
				b, isB := ast.Unparen(cj).(*ast.BinaryExpr)
				if !isB || b.Op != token.NEQ {
					continue
				}
				if isNil(b.Y) {
					hasNil = true
				}
				if tv, isC := info.Types[b.Y]; isC && tv.Value != nil && tv.Value.ExactString() == `"_"` {
					hasBlank = true
				}
			}
			c.Check("import-deletion-guard", f.Name+" named-import test", as.Pos(), hasNil && hasBlank, "`_` imports must not count as named imports (their name would be looked up and the side-effect import deleted)")
		})
		if !found {
			c.Undecided("import-deletion-guard", f.Name+" named-import test", "isNamedImport not found")
		}
	}

	// (3) parse mode of the file that gets formatted
	if f := c.MustFunc(c54Pkg + ".(*Processor).parseFile"); f != nil {
		calls := f.CallsTo("go/parser.ParseFile")
		c.Floor("parse-mode", len(calls), 1)
		for _, s := range calls {
			why := ""
			if len(s.Call.Args) != 4 {
				why = "unexpected ParseFile arity"
			} else {
				mode := s.Call.Args[3]
				names := map[string]bool{}
				ast.Inspect(mode, func(n ast.Node) bool {
					if se, ok := n.(*ast.SelectorExpr); ok {
						if k, ok := f.Info().Uses[se.Sel].(*types.Const); ok && k.Pkg() != nil && k.Pkg().Path() == "go/parser" {
							names[k.Name()] = true
						}
					}
					return true
				})
				if tv, ok := f.Info().Types[mode]; !ok || tv.Value == nil {
					why = "parser mode is not a constant"
				}
				if !names["ParseComments"] {
					why = "ParseComments missing: the printer would drop every comment and directive"
				}
				for _, badm := range []string{"SkipObjectResolution", "ImportsOnly", "PackageClauseOnly"} {
					if names[badm] {
						why = badm + " set: file.Unresolved/declarations are incomplete, so import pruning deletes imports that are in use"
					}
				}
				if fs := engine.ExprString(s.Call.Args[0]); fs != "p.fset" {
					why = "file is not registered in the Processor's FileSet (" + fs + ")"
				}
			}
			c.Check("parse-mode", f.Name, s.Pos(), why == "", why)
		}
	}

	// (4) formatNode
	if f := c.MustFunc(c54Pkg + ".(*Processor).formatNode"); f != nil {
		info := f.Info()
		fileParam := paramObj(f, 0)
		prints := f.CallsTo("go/printer.Fprint")
		procs := f.CallsTo("golang.org/x/tools/imports.Process")
		c.Floor("print-path", len(prints)+len(procs), 2)
		var buf types.Object
		for _, s := range prints {
			ok := len(s.Call.Args) == 3 && engine.ObjOf(info, s.Call.Args[2]) == fileParam && engine.ExprString(s.Call.Args[1]) == "p.fset"
			if u, isU := ast.Unparen(s.Call.Args[0]).(*ast.UnaryExpr); isU && u.Op == token.AND {
				buf = engine.ObjOf(info, u.X)
			}
			c.Check("print-path", f.Name+" printer.Fprint", s.Pos(), ok && buf != nil, "must print the *ast.File it was given, with the FileSet the file was parsed in")
		}
		for _, s := range procs {
			ok := len(s.Call.Args) == 3 && buf != nil && engine.Mentions(info, s.Call.Args[1], buf)
			if len(prints) == 1 && ok {
				ok = f.Graph().Dominates(prints[0], s)
			}
			c.Check("print-path", f.Name+" imports.Process input", s.Pos(), ok, "go/imports must receive the bytes just printed")
			// options
			opts := map[string]string{}
			ast.Inspect(s.Call.Args[2], func(n ast.Node) bool {
				if kv, isKV := n.(*ast.KeyValueExpr); isKV {
					if id, isId := kv.Key.(*ast.Ident); isId {
						if tv, isC := info.Types[kv.Value]; isC && tv.Value != nil {
							opts[id.Name] = tv.Value.ExactString()
						} else {
							opts[id.Name] = "?"
						}
					}
				}
				return true
			})
			c.Check("print-path", f.Name+" FormatOnly", s.Pos(), opts["FormatOnly"] == "true", "go/imports must run in FormatOnly mode (otherwise it adds/removes imports by Go's rules, not Gno's)")
			c.Check("print-path", f.Name+" Comments", s.Pos(), opts["Comments"] == "true", "go/imports must keep comments")
			// the result returned
			retOK := false
			if as, isAs := s.Top.(*ast.AssignStmt); isAs && len(as.Lhs) >= 1 {
				retOK = returnsObj(f, engine.ObjOf(info, as.Lhs[0]))
			}
			c.Check("print-path", f.Name+" returns imports.Process output", s.Pos(), retOK, "formatNode must return go/imports' output")
		}
	}

	// (5) entry points
	entries := []string{"FormatImportFromSource", "FormatSource", "FormatPackageFile", "FormatFile"}
	sinkOK := map[string]bool{
		c54Pkg + ".(*Processor).formatNode": true, c54Pkg + ".(*Processor).processAndFormat": true, c54Pkg + ".(*Processor).FormatImportFromSource": true,
	}
	nE := 0
	for _, e := range append(entries, "processAndFormat") {
		f := c.MustFunc(c54Pkg + ".(*Processor)." + e)
		if f == nil {
			continue
		}
		nE++
		why := ""
		nOK := 0
		engine.InspectBody(f, func(n ast.Node) {
			r, ok := n.(*ast.ReturnStmt)
			if !ok {
				return
			}
			switch len(r.Results) {
			case 1:
				call, isCall := ast.Unparen(r.Results[0]).(*ast.CallExpr)
				if !isCall || !sinkOK[ceCallName(f.Info(), call)] {
					why = "returns `" + engine.ExprString(r.Results[0]) + "` instead of formatNode's output"
				} else {
					nOK++
				}
			case 2:
				if !isNil(r.Results[0]) {
					why = "returns bytes `" + engine.ExprString(r.Results[0]) + "` that did not come from formatNode"
				}
			default:
				why = "unexpected return shape"
			}
		})
		if why == "" && nOK == 0 {
			why = "no return of formatNode/processAndFormat output"
		}
		c.Check("entry-returns", f.Name, f.Pos(), why == "", why)
	}
	c.Floor("entry-returns", nE, 5)
	// processAndFormat passes the same file to cleanup, resolve and formatNode
	if f := c.MustFunc(c54Pkg + ".(*Processor).processAndFormat"); f != nil {
		fileParam := paramObj(f, 0)
		ok := true
		n := 0
		for _, s := range f.CallsTo(c54Pkg+".(*Processor).cleanupPreviousImports", c54Pkg+".(*Processor).resolve", c54Pkg+".(*Processor).formatNode", c54Pkg+".collectUnresolved") {
			n++
			if len(s.Call.Args) == 0 || engine.ObjOf(f.Info(), s.Call.Args[0]) != fileParam {
				ok = false
			}
		}
		c.Check("entry-returns", f.Name+" same file", f.Pos(), ok && n == 4, "collectUnresolved, cleanupPreviousImports, resolve and formatNode must all operate on the file that was parsed")
	}
}
