package checks

import (
	"go/ast"
	"go/constant"
	"go/token"
	"go/types"
	"strconv"
	"strings"

	"golang.org/x/tools/go/ssa"

	"gnoverif/engine"
)

// C45 — bech32 wrapper (thin): the codec is third-party; what /repo owns is
// the bit-group conversion, the error plumbing, the prefix and length tests.
func init() {
	register("C45", c45)
	meta("C45", Meta{
		Text:      "Thin claim. The bech32 codec (checksum, charset, case rules) is the third-party module btcutil/bech32 and is NOT analysed. Decided on every path of /repo's wrappers: the 8→5 (pad) / 5→8 (no pad) regrouping arguments mirror each other; the results of the three library calls are used only after their error tested nil (SSA edge dominance); only checksum-verifying library decoders are referenced and only tm2/pkg/bech32 imports the library; GetFromBech32 / Address.DecodeString return success only after comparing the decoded prefix with the expected one; every copy into an Address is gated by an exact length test; the decode path contains no panic-capable construct. Level 'other': necessary conditions on code shape.",
		Note:      "Not covered: checksum mathematics, single-character-substitution detection, case/charset/length rules (all inside btcutil/bech32); DecodeNoLimit also accepts bech32m checksums (stated, not judged). amino.Unmarshal in PubKeyFromBech32 is trusted not to panic.",
		Technique: "go/ssa verdict-gating (edge dominance), constant-argument mirror, reference/import surface, may-panic enumeration",
		Ref:       "DESIGN.md §2 C45",
	})
	const bf = "tm2/pkg/bech32/bech32.go"
	const cf = "tm2/pkg/crypto/bech32.go"
	const cc = "tm2/pkg/crypto/crypto.go"
	mutants("C45",
		Mutant{"decode-pads", bf, "bech32.ConvertBits(data, 5, 8, false)", "bech32.ConvertBits(data, 5, 8, true)", "convert-mirror"},
		Mutant{"encode-groups-swapped", bf, "bech32.ConvertBits(data, 8, 5, true)", "bech32.ConvertBits(data, 8, 6, true)", "convert-mirror"},
		Mutant{"convert-error-weakened", bf, "converted, err := bech32.ConvertBits(data, 5, 8, false)\n\tif err != nil {", "converted, err := bech32.ConvertBits(data, 5, 8, false)\n\tif err != nil && len(converted) == 0 {", "err-checked"},
		Mutant{"decode-error-dropped", bf, "hrp, data, err := bech32.DecodeNoLimit(bech)\n\tif err != nil {", "hrp, data, err := bech32.DecodeNoLimit(bech)\n\tif err != nil && hrp == \"\" {", "err-checked"},
		Mutant{"prefix-test-weakened", cf, "if hrp != prefix {", "if hrp != prefix && prefix != \"\" {", "hrp-compared"},
		Mutant{"prefix-test-other-operand", cc, "if pre != Bech32AddrPrefix() {", "if pre != Bech32PubKeyPrefix() && pre != Bech32AddrPrefix() {", "hrp-compared"},
		Mutant{"length-test-one-sided", cc, "if len(bz) != AddressSize {\n\t\treturn fmt.Errorf(", "if len(bz) < AddressSize {\n\t\treturn fmt.Errorf(", "addr-length"},
		Mutant{"bech32-addr-skips-length", cf, "return AddressFromBytes(bz)", "var a Address\n\t\tcopy(a[:], bz)\n\t\treturn a, nil", "addr-length"},
		Mutant{"decode-panics", cf, "if err != nil {\n\t\treturn Address{}, err\n\t}", "if err != nil {\n\t\tpanic(err)\n\t}", "no-panic"},
		Mutant{"decode-wrapper-diverges", bf, "return DecodeAndConvert(bech)", "return DecodeAndConvert(bech[1:])", "delegates"},
	)
}

const cjBtc = "github.com/btcsuite/btcd/btcutil/bech32"

func c45(c *engine.Ctx) {
	c.Explain = "Thin: decides the structural clauses of /repo's bech32 wrappers — (1) ConvertAndEncode regroups 8→5 with padding and DecodeAndConvert 5→8 without padding on the decoder's data result; (2) every use of a result of btcutil ConvertBits/DecodeNoLimit (and of the wrappers' own decode calls in tm2/pkg/crypto) is dominated by the nil-error edge of its own error result; (3) tm2/pkg/bech32 references only ConvertBits, Encode and checksum-verifying Decode* functions of the library and is its only importer among the loaded packages; (4) the success return of GetFromBech32 and Address.DecodeString is dominated by equality of the decoded prefix with the expected prefix; (5) every copy into an Address is dominated by len(src) == AddressSize exactly, and AddressFromBech32 returns only through AddressFromBytes; (6) no panic-capable construct in the decode-path functions; (7) Decode/Encode delegate verbatim. Not covered: everything inside btcutil/bech32 (checksum, case, charset, length limits, substitution detection)."
	pats := []string{"tm2/pkg/bech32", "tm2/pkg/crypto"}
	if c.Tier == "thorough" {
		pats = []string{"tm2/...", "gno.land/...", "gnovm/..."}
	}
	p := c.Load(pats...)
	if p == nil {
		return
	}
	const B = "tm2/pkg/bech32."
	const K = "tm2/pkg/crypto."
	enc := c.MustFunc(B + "ConvertAndEncode")
	dec := c.MustFunc(B + "DecodeAndConvert")

	// (1) mirror of the regrouping arguments.
	nm := 0
	mirror := func(f *engine.Fn, from, to int64, pad bool, src string) {
		if f == nil {
			return
		}
		// the regrouping call may sit in a private helper: look through in-program callees
		sites := f.DeepCallsTo(2, cjBtc+".ConvertBits")
		if len(sites) != 1 {
			c.Check("convert-mirror", f.Name+" ConvertBits", f.Pos(), false, "expected exactly one ConvertBits call (directly or through helpers)")
			return
		}
		nm++
		d := sites[0]
		inner := d.Inner
		info := inner.Fn.Info()
		a := inner.Call.Args
		fv, ok1 := cjConstOf(info, a[1])
		tv, ok2 := cjConstOf(info, a[2])
		pv, ok3 := cjConstBool(info, a[3])
		ok := ok1 && ok2 && ok3 && fv == from && tv == to && pv == pad
		c.Check("convert-mirror", f.Name+" ConvertBits groups/pad", d.Outer.Pos(), ok,
			"ConvertBits must be called with constant (from,to,pad) = "+strings.Join([]string{strconv.FormatInt(from, 10), strconv.FormatInt(to, 10), strconv.FormatBool(pad)}, ",")+"; got "+strings.Join(cjArgTexts(inner.Call)[1:], ","))
		// the source operand, expressed in f's own variables
		opnd, in := cjChainArg(f, d, a[0])
		srcOK := false
		if in == f {
			obj := engine.ObjOf(f.Info(), opnd)
			switch src {
			case "param":
				for i := 0; i < 4; i++ {
					if po := paramObj(f, i); po != nil && obj == po {
						if _, isSlice := po.Type().Underlying().(*types.Slice); isSlice {
							srcOK = true
						}
					}
				}
			case "decoded":
				for _, dd := range f.DeepCallsTo(2, cjBtc+".Decode*") {
					objs := cjAssignedFrom(f, dd.Outer)
					if len(objs) >= 2 && objs[1] != nil && obj == objs[1] {
						srcOK = true
					}
				}
			}
		}
		c.Check("convert-mirror", f.Name+" ConvertBits operand", d.Outer.Pos(), srcOK, "the regrouped bytes must be the "+src+" data")
	}
	mirror(enc, 8, 5, true, "param")
	mirror(dec, 5, 8, false, "decoded")
	c.Floor("convert-mirror", nm, 2)

	// (2) error results gate every use.
	ne := 0
	gate := func(f *engine.Fn, vIdx int, callee ...string) {
		if f == nil {
			return
		}
		_ = vIdx // the verdict is the last result at every level of the chain
		for _, d := range f.DeepCallsTo(2, callee...) {
			ne++
			ok, why := cjDeepVerdict(c, p, f, d)
			c.Check("err-checked", f.Name+" -> "+d.Inner.CalleeName(), d.Outer.Pos(), ok, why)
		}
	}
	if enc != nil {
		gate(enc, 1, cjBtc+".ConvertBits")
	}
	if dec != nil {
		gate(dec, 1, cjBtc+".ConvertBits")
		gate(dec, 2, cjBtc+".Decode", cjBtc+".DecodeNoLimit")
		gate(dec, 3, cjBtc+".DecodeGeneric", cjBtc+".DecodeNoLimitWithVersion")
	}
	getFrom := c.MustFunc(K + "GetFromBech32")
	decStr := c.MustFunc(K + "(*Address).DecodeString")
	addrFrom := c.MustFunc(K + "AddressFromBech32")
	pubFrom := c.MustFunc(K + "PubKeyFromBech32")
	if getFrom != nil {
		gate(getFrom, 2, B+"DecodeAndConvert", B+"Decode")
	}
	if decStr != nil {
		gate(decStr, 2, B+"DecodeAndConvert", B+"Decode")
	}
	if addrFrom != nil {
		gate(addrFrom, 1, K+"GetFromBech32")
	}
	if pubFrom != nil {
		gate(pubFrom, 1, K+"GetFromBech32")
	}
	c.Floor("err-checked", ne, 7)

	// (3) library surface.
	allowed := map[string]bool{"ConvertBits": true, "Encode": true, "Decode": true, "DecodeNoLimit": true, "DecodeGeneric": true, "DecodeNoLimitWithVersion": true}
	nrefs := 0
	for _, r := range p.RefsTo(func(o types.Object) bool { return o.Pkg() != nil && o.Pkg().Path() == cjBtc }) {
		nrefs++
		name := r.Ident.Name
		where := "<package-level>"
		if r.Fn != nil {
			where = r.Fn.Root().Name
		}
		c.Check("lib-surface", where+" uses "+name, r.Ident.Pos(), allowed[name] && strings.HasPrefix(where, B),
			"only ConvertBits, Encode and the checksum-verifying Decode* functions may be referenced, and only from tm2/pkg/bech32")
	}
	c.Floor("lib-surface", nrefs, 3)
	if dec != nil {
		c.Check("lib-surface", dec.Name+" decodes through the library", dec.Pos(), len(dec.DeepCallsTo(2, cjBtc+".Decode*")) == 1, "DecodeAndConvert must reach exactly one btcutil Decode* call")
	}
	var importers []string
	for path, pk := range p.ByPath {
		if !strings.HasPrefix(path, engine.ModPrefix) {
			continue
		}
		if _, ok := pk.Imports[cjBtc]; ok {
			importers = append(importers, engine.Rel(path))
		}
	}
	c.Check("lib-surface", "importers of btcutil/bech32", token.NoPos, len(engine.SetDiff(importers, []string{"tm2/pkg/bech32"})) == 0 && len(importers) == 1, "importers: "+join(importers))

	// (4) prefix comparison gates success.
	nh := 0
	hrp := func(f *engine.Fn, expect string) {
		sf := cjSSA(c, p, f)
		if sf == nil {
			return
		}
		calls := cjSSACalls(sf, B+"DecodeAndConvert", B+"Decode")
		if len(calls) != 1 {
			c.Check("hrp-compared", f.Name, f.Pos(), false, "expected exactly one decode call")
			return
		}
		h := cjResult(calls[0], 0)
		rets := cjSuccessReturns(sf)
		if len(rets) == 0 {
			c.Check("hrp-compared", f.Name, f.Pos(), false, "no success return found")
			return
		}
		for _, ret := range rets {
			nh++
			ok, why := false, "no test of the decoded prefix against "+expect+" dominates the success return"
			if h == nil {
				why = "the decoded prefix is discarded"
			} else {
				isOther := func(o ssa.Value) bool {
					switch x := o.(type) {
					case *ssa.Parameter:
						for k, pr := range sf.Params {
							if pr == x && expect == "param#"+strconv.Itoa(k) {
								return true
							}
						}
					case *ssa.Call:
						return expect == "call:"+cjCalleeName(x)
					}
					return false
				}
				if cjEqualityGates(sf, h, isOther, ret.Block(), 2) {
					ok, why = true, "success return dominated by prefix equality"
				}
			}
			c.Check("hrp-compared", f.Name+" success return", ret.Pos(), ok, why)
		}
	}
	if getFrom != nil {
		hrp(getFrom, "param#1")
	}
	if decStr != nil {
		hrp(decStr, "call:"+K+"Bech32AddrPrefix")
	}
	c.Floor("hrp-compared", nh, 2)

	// (5) exact length before copying into an Address.
	nl := 0
	size := int64(-1)
	if o, ok := p.Object("tm2/pkg/crypto.AddressSize").(*types.Const); ok {
		if v, ok := cjConstObjInt(o); ok {
			size = v
		}
	}
	if size < 0 {
		c.Undecided("addr-length", "tm2/pkg/crypto.AddressSize", "constant not found")
	}
	for _, f := range []*engine.Fn{c.MustFunc(K + "AddressFromBytes"), decStr, addrFrom} {
		sf := cjSSA(c, p, f)
		if sf == nil {
			continue
		}
		for _, call := range cjSSACalls(sf, "builtin.copy") {
			// destination is (a slice of) an Address?
			if !cjIsAddressSlice(call.Call.Args[0]) {
				continue
			}
			nl++
			src := call.Call.Args[1]
			ok := false
			for _, b := range sf.Blocks {
				i, isIf := b.Instrs[len(b.Instrs)-1].(*ssa.If)
				if !isIf {
					continue
				}
				bo, isb := i.Cond.(*ssa.BinOp)
				if !isb || (bo.Op != token.NEQ && bo.Op != token.EQL) {
					continue
				}
				x, y := bo.X, bo.Y
				if _, isLen := cjIsLenCall(y); isLen {
					x, y = y, x
				}
				lx, isLen := cjIsLenCall(x)
				k, isK := cjConstInt(y)
				if !isLen || !isK || lx != src || k != size {
					continue
				}
				good := 1
				if bo.Op == token.EQL {
					good = 0
				}
				if cjEdgeDominates(b, good, call.Block()) {
					ok = true
				}
			}
			c.Check("addr-length", f.Name+" copy into Address", call.Pos(), ok, "the copy must be dominated by len(src) == AddressSize (exact test)")
		}
	}
	if addrFrom != nil {
		info := addrFrom.Info()
		g := addrFrom.Graph()
		var errObj, bzObj types.Object
		for _, s := range addrFrom.CallsTo(K + "GetFromBech32") {
			if objs := cjAssignedFrom(addrFrom, s); len(objs) == 2 {
				bzObj, errObj = objs[0], objs[1]
			}
		}
		for _, r := range cjReturns(addrFrom) {
			nl++
			ok, why := false, "return neither forwards AddressFromBytes(decoded bytes) nor is on the decode-error branch"
			if len(r.Results) == 1 {
				if call, isCall := ast.Unparen(r.Results[0]).(*ast.CallExpr); isCall {
					if s := addrFrom.SiteOf(call); s != nil && s.CalleeName() == K+"AddressFromBytes" && len(call.Args) == 1 && bzObj != nil && engine.ObjOf(info, call.Args[0]) == bzObj {
						ok, why = true, "forwards AddressFromBytes"
					}
				}
			}
			if !ok {
				if s := addrFrom.SiteOf(r); s != nil && errObj != nil {
					for _, gt := range g.Gates(s) {
						if cjErrNotNilGate(info, gt, errObj) {
							ok, why = true, "error branch"
						}
					}
				}
			}
			c.Check("addr-length", addrFrom.Name+" return", r.Pos(), ok, why)
		}
	}
	c.Floor("addr-length", nl, 4)

	// (6) no panic-capable construct on the decode path.
	np := 0
	for _, name := range []string{B + "DecodeAndConvert", B + "Decode", K + "GetFromBech32", K + "AddressFromBech32", K + "PubKeyFromBech32", K + "AddressFromBytes", K + "(*Address).DecodeString", K + "(*Address).UnmarshalAmino", K + "AddressFromString"} {
		f := c.MustFunc(name)
		if f == nil {
			continue
		}
		np++
		sites := cjPanicSites(f)
		c.Check("no-panic", f.Name, f.Pos(), len(sites) == 0, "panic-capable constructs: "+join(sites))
	}
	c.Floor("no-panic", np, 9)

	// (7) the exported aliases delegate verbatim.
	nd := 0
	for _, pr := range [][2]string{{"Decode", "DecodeAndConvert"}, {"Encode", "ConvertAndEncode"}} {
		f := c.MustFunc(B + pr[0])
		if f == nil {
			continue
		}
		nd++
		ok := false
		if len(f.Body.List) == 1 {
			if r, isRet := f.Body.List[0].(*ast.ReturnStmt); isRet && len(r.Results) == 1 {
				if call, isCall := ast.Unparen(r.Results[0]).(*ast.CallExpr); isCall {
					if s := f.SiteOf(call); s != nil && s.CalleeName() == B+pr[1] {
						ok = true
						for i, a := range call.Args {
							if engine.ObjOf(f.Info(), a) != paramObj(f, i) || paramObj(f, i) == nil {
								ok = false
							}
						}
					}
				}
			}
		}
		c.Check("delegates", f.Name+" = "+pr[1], f.Pos(), ok, "the alias must return "+pr[1]+"(its own parameters) and nothing else")
	}
	c.Floor("delegates", nd, 2)
}

func cjIsAddressSlice(v ssa.Value) bool {
	sl, ok := v.(*ssa.Slice)
	if !ok {
		return false
	}
	t := sl.X.Type()
	if pt, ok := t.Underlying().(*types.Pointer); ok {
		t = pt.Elem()
	}
	return engine.TypeName(t) == "tm2/pkg/crypto.Address"
}

func cjConstObjInt(o *types.Const) (int64, bool) {
	if o.Val().Kind() != constant.Int {
		return 0, false
	}
	return constant.Int64Val(o.Val())
}
