package checks

import (
	"go/ast"
	"go/token"
	"go/types"

	"gnoverif/engine"
)

// C25 / C39 extra — the Merkle hash functions hash their WHOLE input. A proof
// binds content to a root only if leafHash covers every byte of the leaf and
// innerHash every byte of both children; PartSet.AddPart (C39) accepts a block
// part exactly when its leaf hash chains to the header's root, so a leaf hash
// that ignores some byte lets a part with that byte altered through.
// Rule, for every []byte parameter p of merkle.leafHash / merkle.innerHash:
// p is used only whole — as an append operand (`append(x, p...)`, `append(p, …)`),
// as a whole argument of a call (hash Write/Sum), or under len(); it is never
// sliced or indexed; and a `copy(dst, p)` is accepted only when the analysis can
// see that nothing is dropped: dst's buffer is made with a size that mentions
// len(p), or the count returned by copy is compared with len(p), or a test
// relating len(p) to len/cap of the destination buffer gates the copy. Any other
// copy is UNDECIDED (a fixed-size or pooled buffer silently truncates).
// (Added after an independently seeded second-round C39 change made leafHash
// copy the leaf into a pooled 64 KiB scratch buffer one byte too small for a
// full-size block part.)
func init() {
	extend("C25", c25WholeInput)
	extend("C39", c25WholeInput)
	mutants("C39",
		Mutant{"leafhash-fixed-scratch", "tm2/pkg/crypto/merkle/hash.go", "	return tmhash.Sum(append(leafPrefix, leaf...))", "	var scratch [65536]byte\n\tscratch[0] = leafPrefix[0]\n\tn := copy(scratch[1:], leaf)\n\treturn tmhash.Sum(scratch[:1+n])", "hash-whole-input"},
		Mutant{"leafhash-skips-tail", "tm2/pkg/crypto/merkle/hash.go", "	return tmhash.Sum(append(leafPrefix, leaf...))", "	if len(leaf) > 1<<16 {\n\t\tleaf = leaf[:1<<16]\n\t}\n\treturn tmhash.Sum(append(leafPrefix, leaf...))", "hash-whole-input"},
	)
	metaExtra("C39", "hash-whole-input: merkle.leafHash/innerHash use each []byte parameter only whole (never sliced, indexed, reassigned or copied into a buffer whose size is unrelated to it)")
	metaExtra("C25", "hash-whole-input: merkle.leafHash/innerHash use each []byte parameter only whole (never sliced, indexed, reassigned or copied into a buffer whose size is unrelated to it)")
}

func c25WholeInput(c *engine.Ctx) {
	p := progWith(c, "tm2/pkg/crypto/merkle")
	if p == nil {
		return
	}
	n := 0
	for _, name := range []string{"leafHash", "innerHash"} {
		f := c.MustFunc("tm2/pkg/crypto/merkle." + name)
		if f == nil {
			continue
		}
		info := f.Info()
		sig, _ := f.Obj.Type().(*types.Signature)
		if sig == nil {
			continue
		}
		for i := 0; i < sig.Params().Len(); i++ {
			par := sig.Params().At(i)
			if sl, ok := par.Type().Underlying().(*types.Slice); !ok || !isByte(sl.Elem()) {
				continue
			}
			n++
			key := f.Name + " parameter " + par.Name()
			ok, undec, why := true, false, "used only whole"
			// parents map
			parent := map[ast.Node]ast.Node{}
			var stack []ast.Node
			ast.Inspect(f.Body, func(x ast.Node) bool {
				if x == nil {
					stack = stack[:len(stack)-1]
					return true
				}
				if len(stack) > 0 {
					parent[x] = stack[len(stack)-1]
				}
				stack = append(stack, x)
				return true
			})
			uses := 0
			ast.Inspect(f.Body, func(x ast.Node) bool {
				id, isID := x.(*ast.Ident)
				if !isID || info.ObjectOf(id) != types.Object(par) {
					return true
				}
				uses++
				var par0 ast.Node = id
				up := parent[par0]
				for {
					if pe, isP := up.(*ast.ParenExpr); isP {
						par0, up = pe, parent[pe]
						continue
					}
					break
				}
				switch u := up.(type) {
				case *ast.SliceExpr:
					if u.X == par0 {
						ok, why = false, "the parameter is sliced (`"+engine.ExprString(u)+"`): bytes outside the slice are not hashed"
					}
				case *ast.IndexExpr:
					if u.X == par0 {
						ok, why = false, "the parameter is indexed (`"+engine.ExprString(u)+"`), not used whole"
					}
				case *ast.AssignStmt:
					for _, l := range u.Lhs {
						if l == par0 {
							ok, why = false, "the parameter is reassigned before hashing"
						}
					}
				case *ast.CallExpr:
					if engine.IsBuiltinCall(info, u, "copy") && len(u.Args) == 2 && u.Args[1] == par0 {
						if !copyKeepsAll(f, u, par, parent) {
							undec = true
							why = "`" + engine.ExprString(u) + "` copies the input into a buffer whose size the analysis cannot relate to len(" + par.Name() + "): a truncating copy leaves trailing bytes unhashed"
						}
					}
				}
				return true
			})
			if uses == 0 {
				ok, why = false, "the parameter is never used: its bytes are not hashed"
			}
			if undec && ok {
				c.Undecided("hash-whole-input", key, why)
			} else {
				c.Check("hash-whole-input", key, f.Pos(), ok, why)
			}
		}
	}
	c.Floor("hash-whole-input", n, 3)
}

func isByte(t types.Type) bool {
	b, ok := t.Underlying().(*types.Basic)
	return ok && (b.Kind() == types.Byte || b.Kind() == types.Uint8)
}

// copyKeepsAll: see the rule text above.
func copyKeepsAll(f *engine.Fn, call *ast.CallExpr, par *types.Var, parent map[ast.Node]ast.Node) bool {
	info := f.Info()
	mentionsLen := func(e ast.Node) bool {
		found := false
		ast.Inspect(e, func(x ast.Node) bool {
			if c, ok := x.(*ast.CallExpr); ok && (engine.IsBuiltinCall(info, c, "len")) && len(c.Args) == 1 && engine.ObjOf(info, c.Args[0]) == types.Object(par) {
				found = true
			}
			return true
		})
		return found
	}
	// destination base identifier
	dst := ast.Unparen(call.Args[0])
	for {
		if s, ok := dst.(*ast.SliceExpr); ok {
			dst = ast.Unparen(s.X)
			continue
		}
		break
	}
	var dstObj types.Object
	if id, ok := dst.(*ast.Ident); ok {
		dstObj = info.ObjectOf(id)
		// (a) made with a size that mentions len(p)
		if d := niSingleDef(f, dstObj); d != nil {
			if mk, ok := ast.Unparen(d).(*ast.CallExpr); ok && engine.IsBuiltinCall(info, mk, "make") && len(mk.Args) >= 2 && mentionsLen(mk.Args[1]) {
				return true
			}
		}
	}
	// (b) the copied count is compared with len(p)
	if as, ok := parent[call].(*ast.AssignStmt); ok && len(as.Lhs) == 1 {
		if nObj := engine.ObjOf(info, as.Lhs[0]); nObj != nil {
			cmp := false
			engine.InspectBody(f, func(x ast.Node) {
				if b, ok := x.(*ast.BinaryExpr); ok && (b.Op == token.NEQ || b.Op == token.EQL || b.Op == token.LSS) {
					if (engine.ObjOf(info, b.X) == nObj && mentionsLen(b.Y)) || (engine.ObjOf(info, b.Y) == nObj && mentionsLen(b.X)) {
						cmp = true
					}
				}
			})
			if cmp {
				return true
			}
		}
	}
	// (c) a gate relating len(p) to len/cap of the destination buffer
	if dstObj != nil {
		if s := f.SiteOf(call); s != nil {
			for _, gt := range f.Graph().Gates(s) {
				for _, a := range engine.Atoms(gt.Cond) {
					b, ok := ast.Unparen(a).(*ast.BinaryExpr)
					if !ok || !mentionsLen(b) {
						continue
					}
					other := false
					ast.Inspect(b, func(x ast.Node) bool {
						if c, ok := x.(*ast.CallExpr); ok && (engine.IsBuiltinCall(info, c, "len") || engine.IsBuiltinCall(info, c, "cap")) && len(c.Args) == 1 {
							base := ast.Unparen(c.Args[0])
							for {
								if sl, ok := base.(*ast.SliceExpr); ok {
									base = ast.Unparen(sl.X)
									continue
								}
								break
							}
							if engine.ObjOf(info, base) == dstObj {
								other = true
							}
						}
						return true
					})
					if other {
						return true
					}
				}
			}
		}
	}
	return false
}
