package main

import (
	"fmt"
	"os"
	"path/filepath"
	"runtime/debug"
	"sort"
	"strings"

	"gnoverif/checks"
	"gnoverif/engine"
)

// selftest analyses one-edit mutants of /repo through packages.Config.Overlay
// (no copy of the tree is made) and asserts that the property's check reports
// the broken instance. It is a test of the checker, never property evidence.
func selftest(ids []string) int {
	if len(ids) == 0 {
		for id := range checks.Mutants {
			ids = append(ids, id)
		}
		sort.Strings(ids)
	}
	bad := 0
	for _, id := range ids {
		fn := checks.Registry[id]
		if fn == nil {
			fmt.Printf("%s: no check\n", id)
			bad++
			continue
		}
		for _, m := range checks.Mutants[id] {
			path := filepath.Join(engine.RepoDir(), m.File)
			src, err := os.ReadFile(path)
			if err != nil {
				fmt.Printf("%s %s: STALE cannot read %s\n", id, m.Name, m.File)
				bad++
				continue
			}
			if strings.Count(string(src), m.Find) != 1 {
				fmt.Printf("%s %s: STALE find-text occurs %d times in %s\n", id, m.Name, strings.Count(string(src), m.Find), m.File)
				bad++
				continue
			}
			mutated := strings.Replace(string(src), m.Find, m.Replace, 1)
			for _, fr := range checks.MutantMore[id+"/"+m.Name] {
				mutated = strings.ReplaceAll(mutated, fr[0], fr[1])
			}
			engine.GlobalOverlay = map[string][]byte{path: []byte(mutated)}
			c := engine.NewCtx(id, "quick")
			c.Quiet = true
			func() {
				defer func() {
					if r := recover(); r != nil {
						c.Undecided("analyser-panic", id, fmt.Sprintf("%v\n%s", r, debug.Stack()))
					}
				}()
				checks.Run(id, c)
			}()
			engine.GlobalOverlay = nil
			hit := false
			for _, f := range c.Failing() {
				if strings.Contains(f, m.Expect) {
					hit = true
				}
			}
			if hit {
				fmt.Printf("%s %s: caught (%s)\n", id, m.Name, m.Expect)
			} else {
				fmt.Printf("%s %s: MISSED expected %q, failing=%v\n", id, m.Name, m.Expect, c.Failing()); for _, o := range c.Obs { if !o.OK { fmt.Println("   ", o.Detail) } }
				bad++
			}
		}
	}
	if bad > 0 {
		fmt.Printf("selftest: %d problems\n", bad)
		return 1
	}
	fmt.Println("selftest: ok")
	return 0
}
