#!/bin/bash
# seed_round3.sh ID PROP DEMO_DEST RUN_PATTERN DEMO_PKG "TEST_PKGS" "summary" "needs"
# takes /tmp/seed-PROP.patch + /tmp/seed-PROP-demo_test.go from a sub-agent, confirms, evaluates, records.
ID=$1; P=$2; DEST=$3; PAT=$4; DPKG=$5; TPKGS=$6; SUM=$7; NEEDS=$8
export GOFLAGS=-mod=mod GOPROXY=off GOSUMDB=off GOTOOLCHAIN=local PATH=/opt/veriftools/go1.26.8/bin:$PATH; unset GOWORK
S=/tmp/seed/out/$ID; mkdir -p $S
cp /tmp/seed-$P.patch $S/patch.diff; cp /tmp/seed-$P-demo_test.go $S/demo_test.go
python3 - "$S" "$SUM" "$NEEDS" <<'PY'
import json,sys,re
s,summ,needs=sys.argv[1:4]
files=sorted(set(re.findall(r'^\+\+\+ b/(\S+)',open(s+'/patch.diff').read(),re.M)))
json.dump({'summary':summ,'needs_to_manifest':needs,'files_changed':files},open(s+'/meta.json','w'),indent=1)
PY
cd /verif
./seed_confirm.sh $ID $DEST "$PAT" $DPKG "$TPKGS"
EVALREPO=/tmp/evalrepo-$ID ./seed_eval.sh /verif/seeded/$ID $P
