#!/bin/sh
# Builds the checker from vendored sources (offline) and warms the Go build
# cache for /repo so that `go list -export` (used by go/packages) is fast.
set -e
export GOTOOLCHAIN=local GOPROXY=off GOSUMDB=off GOWORK=off
export PATH=/opt/veriftools/go1.26.8/bin:$PATH
mkdir -p /verif/bin /verif/evidence
(cd /verif/checker && GOFLAGS=-mod=vendor go build -o /verif/bin/gnoverif .)
(cd /repo && GOFLAGS=-mod=mod go build ./gnovm/... ./tm2/... ./gno.land/... >/dev/null 2>&1 || true)
echo "gnoverif built"
