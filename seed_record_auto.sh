#!/bin/bash
# seed_record_auto.sh ID status "note" — re-evaluates /verif/seeded/ID/patch.diff with the current checker,
# collects the failing obligation ids and writes meta.json via seed_record.py
ID=$1; ST=$2; NOTE=$3; P=${ID:0:3}
OUT=$(./seed_eval.sh /verif/seeded/$ID $P 2>&1)
EXIT=$(echo "$OUT" | grep -o "exit=[0-9]*" | head -1)
OBS=$(echo "$OUT" | grep "\[$P\]" | sed -E "s/^ *[^ ]+: //; s/ \[$P\].*//" | sort -u | head -6 | paste -sd';' | sed 's/;/ ; /g')
[ "$EXIT" = "exit=1" ] || { echo "$ID: NOT CAUGHT ($EXIT)"; OBS="(no violation reported)"; }
./seed_record.py $ID "${NOTE}${NOTE:+ — }now reported by: $OBS" $ST
