#!/bin/bash
# seed_retest.sh ID "TEST_PKGS" [extra go test flags] — re-runs the existing tests with the seeded patch applied
# (after a run that failed only on load-sensitive timing tests) and rewrites the result line of confirm.log.
ID=$1; TPKGS=$2; FLAGS=$3
OUT=/verif/seeded/$ID; LOG=$OUT/confirm.log; WT=/tmp/wt-seed-$ID
export GOFLAGS=-mod=mod
git -C /repo worktree add --detach $WT HEAD -q || exit 2
cd $WT && git apply $OUT/patch.diff || exit 3
echo "## re-run of the existing tests with the patch at lower machine load ($FLAGS): $TPKGS" >> $LOG
go test -count=1 -timeout 60m $FLAGS $TPKGS 2>&1 | grep -v "no test files\|warning\|note:\|^ \|^In file\|At top\|cc1\|^#\|^mdb\|cgo-gcc" >> $LOG; D=${PIPESTATUS[0]}
cd /; git -C /repo worktree remove --force $WT
sed -i "s/^\($ID: demo_without_patch_exit=[0-9]* build_exit=[0-9]* demo_with_patch_exit=[0-9]*\) existing_tests_exit=[0-9]*$/\1 existing_tests_exit=$D (re-run at lower load; the first run failed only load-sensitive timing tests)/" $LOG
tail -1 $LOG
