#!/bin/sh
# Usage: seed_eval.sh <dir-with-patch.diff> <Cnn> [more checks...]
# Applies a seeded breaking change to /repo, runs the named checks, and always reverts.
D=$1; shift
R=/tmp/evalrepo; git -C $R checkout -q --detach $(git -C /repo rev-parse HEAD) 2>/dev/null; export VERIF_REPO=$R VERIF_DIR=/tmp/evalverif; mkdir -p $VERIF_DIR; cp /verif/known_findings.json $VERIF_DIR/; cd $R || exit 2
git checkout -q -- .
git apply "$D/patch.diff" || { echo "PATCH DOES NOT APPLY"; exit 3; }
for c in "$@"; do
  /verif/bin/gnoverif check $c > /tmp/seed_eval_$c.log 2>&1; rc=$?
  echo "== $c exit=$rc"; grep -v '^VIOLATION' /tmp/seed_eval_$c.log | grep "\[$c\]" | cut -c1-400 | head -8
done
git checkout -- . ; git status --short | grep -v '^??'
# restore evidence files that the run overwrote

