#!/bin/sh
# Usage: seed_eval.sh <dir-with-patch.diff> <Cnn> [more checks...]
# Applies a seeded breaking change to /repo, runs the named checks, and always reverts.
D=$1; shift
R=${EVALREPO:-/tmp/evalrepo}; [ -d $R ] || git -C /repo worktree add --detach $R HEAD -q; git -C $R checkout -q --detach $(git -C /repo rev-parse HEAD) 2>/dev/null; export VERIF_REPO=$R VERIF_DIR=${EVALREPO:-/tmp/evalrepo}-verif; mkdir -p $VERIF_DIR; cp /verif/known_findings.json $VERIF_DIR/; cd $R || exit 2
git checkout -q -- .
git apply "$D/patch.diff" || { echo "PATCH DOES NOT APPLY"; exit 3; }
for c in "$@"; do
  ${GNOVERIF:-/verif/bin/gnoverif} check $c > $VERIF_DIR/seed_eval_$c.log 2>&1; rc=$?
  echo "== $c exit=$rc"; grep -v '^VIOLATION' $VERIF_DIR/seed_eval_$c.log | grep "\[$c\]" | cut -c1-400 | head -8
done
git checkout -- . ; git status --short | grep -v '^??'
# restore evidence files that the run overwrote

