#!/bin/sh
# Usage: seed_eval.sh <dir-with-patch.diff> <Cnn> [more checks...]
# Applies a seeded breaking change to /repo, runs the named checks, and always reverts.
D=$1; shift
cd /repo || exit 2
if ! git diff --quiet; then echo "/repo has uncommitted changes"; exit 2; fi
git apply "$D/patch.diff" || { echo "PATCH DOES NOT APPLY"; exit 3; }
for c in "$@"; do
  /verif/bin/gnoverif check $c > /tmp/seed_eval_$c.log 2>&1; rc=$?
  echo "== $c exit=$rc"; grep -v '^VIOLATION' /tmp/seed_eval_$c.log | grep "\[$c\]" | cut -c1-400 | head -8
done
git checkout -- . ; git status --short | grep -v '^??'
# restore evidence files that the run overwrote
cd /verif && git checkout -- evidence 2>/dev/null
