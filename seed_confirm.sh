#!/bin/bash
# seed_confirm.sh ID DEMO_DEST RUN_PATTERN DEMO_PKG "TEST_PKGS..."
# Confirms a seeded change in a scratch worktree: demo passes on the unchanged tree,
# fails with the patch; the tree builds and the existing tests of TEST_PKGS pass with it.
ID=$1; DEST=$2; PAT=$3; DPKG=$4; TPKGS=$5
SRC=${SEED_SRC:-/tmp/seed/out/$ID}
WT=/tmp/wt-seed-$ID
OUT=/verif/seeded/$ID; mkdir -p $OUT
LOG=$OUT/confirm.log; : > $LOG
export GOFLAGS=-mod=mod
git -C /repo worktree add --detach $WT HEAD -q >>$LOG 2>&1 || { echo "worktree failed" | tee -a $LOG; exit 2; }
cd $WT
cp $SRC/demo_test.go $DEST
echo "## demo on unchanged tree (HEAD $(git rev-parse --short HEAD))" >> $LOG
go test -count=1 -timeout 40m -run "$PAT" $DPKG >> $LOG 2>&1; A=$?
rm $DEST
git apply $SRC/patch.diff >> $LOG 2>&1 || { echo "$ID: PATCH DOES NOT APPLY" | tee -a $LOG; cd /; git -C /repo worktree remove --force $WT; exit 3; }
echo "## build with patch" >> $LOG
go build ./tm2/... ./gnovm/... ./gno.land/... >> $LOG 2>&1; B=$?
cp $SRC/demo_test.go $DEST
echo "## demo with patch" >> $LOG
go test -count=1 -timeout 40m -run "$PAT" $DPKG >> $LOG 2>&1; C=$?
rm $DEST
echo "## existing tests with patch: $TPKGS" >> $LOG
go test -count=1 -timeout 90m $TPKGS 2>&1 | grep -v "no test files\|warning\|note:\|^ \|^In file\|At top\|cc1\|^#\|^mdb" >> $LOG; D=${PIPESTATUS[0]}
cd /; git -C /repo worktree remove --force $WT
echo "$ID: demo_without_patch_exit=$A build_exit=$B demo_with_patch_exit=$C existing_tests_exit=$D" | tee -a $LOG
cp $SRC/patch.diff $OUT/patch.diff; cp $SRC/demo_test.go $OUT/demo_test.go.txt; cp $SRC/meta.json $OUT/meta_from_author.json 2>/dev/null
