#!/bin/sh
# Runs every registered check (quick tier by default) with bounded parallelism
# and prints one summary line per property. Usage: ./run_all.sh [quick|thorough] [jobs]
TIER=${1:-quick}; JOBS=${2:-4}
cd /verif
mkdir -p /tmp/gnoverif-logs
bin/gnoverif list | xargs -P "$JOBS" -I{} sh -c 'bin/gnoverif check {} --tier '"$TIER"' > /tmp/gnoverif-logs/{}.log 2>&1; echo "{} exit=$? $(tail -1 /tmp/gnoverif-logs/{}.log)"' | sort
