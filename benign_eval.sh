#!/bin/sh
# benign_eval.sh <Cnn> [check]: applies each behaviour-preserving refactor r*.diff of /verif/benign/Cnn to a scratch worktree of /repo,
# runs the property's check (must stay silent), reverts.
ID=$1; CK=${2:-$1}
R=${EVALREPO:-/tmp/evalrepo}; [ -d $R ] || git -C /repo worktree add --detach $R HEAD -q; git -C $R checkout -q --detach $(git -C /repo rev-parse HEAD) 2>/dev/null; export VERIF_REPO=$R VERIF_DIR=${EVALREPO:-/tmp/evalrepo}-verif; mkdir -p $VERIF_DIR; cp /verif/known_findings.json $VERIF_DIR/; cd $R || exit 2
git checkout -q -- .
for d in ${BENIGN_DIR:-/verif/benign}/$ID/r*.diff; do
  git apply "$d" || { echo "$d: DOES NOT APPLY"; continue; }
  ${GNOVERIF:-/verif/bin/gnoverif} check $CK > $VERIF_DIR/benign_eval.log 2>&1; rc=$?
  echo "== $ID→$CK $(basename $d) exit=$rc"; grep "\[$CK\]" $VERIF_DIR/benign_eval.log | cut -c1-330 | head -6
  git checkout -- .
done

